"""C14 - FlumineSimulation.run: the clock is restored on every exit; markets of one event group are merged chronologically,
every update delivered exactly once with each market's own order preserved; a single market is delivered in order, once.

External data as ghost sequences (A7 + D4).  A historical stream's generator is an external object (betfairlightweight's
HistoricalGeneratorStream reading a file through the listener).  It is modelled (iterator_model) by the ghost sequence g_seq of
everything it will ever yield - the lists of market books that pass the listener's filters - and a cursor g_pos.  The ASSUMED
contract of the generator factory states what the data is like:
   D4   publish_time_epoch of the first book of successive batches is non-decreasing within one stream,
   every yielded batch is a non-empty list,  batches are separate list objects belonging to their generator.

Delivery is observed by scalar ghost monitors updated at every call of FlumineSimulation._process_market_books (ghost_before_call):
   g_chrono   "every delivery so far had a first-book epoch >= the previous delivery of this group / stream"
   g_cnt      number of deliveries of ONE ARBITRARY batch  B* = streams[g_s].g_gen.g_seq[g_j]   (universal generalisation)
   g_cnt2 / g_order_ok   the same for a second arbitrary LATER batch of the same stream: "B2 is never delivered before B*"
The monitors live on the SimulatedDateTime object (reachable from both run and _process_market_books) and are reset when a
group / a single stream starts (reset_real_datetime is called exactly there).
"""

NEW_DT = "cls:NewDateTime"

inline("flumine/streams/streams.py::Streams.__iter__")

record("Cycle", REAL, ListOf(Ref("MarketBook")), Ref("StreamGen"))  # [epoch, [MarketBook], generator]
schema("Streams", _streams=ListOf(Ref("BaseStream")))
schema("BaseStream", event_group=Opt(ATOM), market_filter=ATOM, g_gen=Ref("StreamGen"))
schema("GenFactory", g_stream=Ref("BaseStream"))
schema("StreamGen", g_seq=ListOf(ListOf(Ref("MarketBook"))), g_pos=INT, g_stream=Ref("BaseStream"), g_serial=INT)
iterator_model("StreamGen", seq="g_seq", pos="g_pos")
schema("SimulatedDateTime", g_start=INT, g_have_last=BOOL, g_last_epoch=REAL, g_chrono=BOOL, g_B=ListOf(Ref("MarketBook")), g_cnt=INT,
       g_B2=ListOf(Ref("MarketBook")), g_cnt2=INT, g_order_ok=BOOL, g_s=INT, g_j=INT, g_j2=INT)
schema("BaseFlumine", streams=Ref("Streams"), clients=Ref("Clients"))
# ghost (never written): "some historical stream of this run yields no update at all" (e.g. a listener filter that the whole file fails)
# g_gen_counter: ghost serial numbers of the generators created; g_watch_serial (never written): the serial of ONE ARBITRARY generator,
# g_watched_gen: that generator once it has been created
module_var("flumine.config", g_some_stream_is_empty=BOOL, g_gen_counter=INT, g_watch_serial=INT, g_watched_gen=Ref("StreamGen"))
module_alias("config", "flumine.config")
abstract_property("Clients", "simulated", BOOL)


def epoch(batch):
    return batch[0].publish_time_epoch


def gen_ok(g):
    """what is ASSUMED of the data a historical generator yields (D4, non-empty separate batches owned by the generator)"""
    return forall(lambda j: len(g.g_seq[j]) >= 1 and owner_obj(g.g_seq[j]) == g, 0, len(g.g_seq)) \
        and forall_int(lambda a, b: implies(0 <= a and a < b and b < len(g.g_seq), epoch(g.g_seq[a]) <= epoch(g.g_seq[b]) and g.g_seq[a] is not g.g_seq[b]))


@virtual("BaseStream", "create_generator", tags=["C14"], shadows_default=True, fresh_result=True)
def _(self) -> Ref("GenFactory"):
    ensures("factory_of_this_stream", result.g_stream == self)


@virtual("GenFactory", "__call__", tags=["C14"], fresh_result=True)
def _(self) -> Ref("StreamGen"):
    """ASSUMED: a new generator over the stream's recorded data (see module docstring)"""
    modifies(self.g_stream, "g_gen")
    modifies_module("flumine.config", "g_gen_counter")
    modifies_module("flumine.config", "g_watched_gen")
    ensures("numbered", result.g_serial == old(config.g_gen_counter) and config.g_gen_counter == old(config.g_gen_counter) + 1)
    ensures("the_watched_generator_is_remembered", config.g_watched_gen == (result if old(config.g_gen_counter) == config.g_watch_serial else old(config.g_watched_gen)))
    ensures("fresh_generator_at_the_start", result.g_pos == 0 and result.g_stream == self.g_stream and self.g_stream.g_gen == result)
    ensures("empty_data_is_flagged", implies(len(result.g_seq) == 0, config.g_some_stream_is_empty))
    ensures("recorded_data_is_chronological_non_empty_batches", gen_ok(result))


# ----------------------------------------------------------------------------- framework start / stop (assumed)
@contract("flumine/baseflumine.py::BaseFlumine.__enter__", tags=["C14"])
def _(self):
    """ASSUMED (framework start-up: logging in, workers, logging controls, strategies.start, streams.start): may refuse to start
    (ClientError: no client), sets config.simulated, does not touch the clock class, the registry, the latency queue"""
    trusted("framework start-up; only its frame is used by C14")
    raises(ClientError, label="no_clients")
    modifies_module("flumine.config", "simulated")


@contract("flumine/baseflumine.py::BaseFlumine.__exit__", tags=["C14"])
def _(self, *args):
    """ASSUMED (framework shutdown: _process_end_flumine, workers, streams.stop, executions, logging controls, logout)"""
    trusted("framework shutdown; only its frame is used by C14")
    modifies_all("BaseOrder.status")
    modifies_all("BaseOrder.complete")
    modifies_all("Market.closed")


# ----------------------------------------------------------------------------- list.sort (assumed: builtin)
def all_distinct(l):
    return forall_int(lambda a, b: implies(0 <= a and a < b and b < len(l), l[a] != l[b]))


@external("builtins.list.sort", tags=["C14"])
def _(l, key):
    """ASSUMED: list.sort(key=f) sorts in place, ascending by f, and is a permutation of the old contents (stability - equal keys keep
    their relative order - is what makes the result a deterministic function of the input; it is not needed by the clauses below)"""
    modifies_list(l)
    ensures("ascending_by_key", forall_int(lambda a, b: implies(0 <= a and a < b and b < len(l), key(l[a]) <= key(l[b]))))
    ensures("same_length", len(l) == old(len(l)))
    ensures("every_element_was_there", forall(lambda j: exists(lambda i: old(l[i]) == l[j], 0, old(len(l))), 0, len(l)))
    ensures("every_element_is_still_there", forall(lambda i: exists(lambda j: old(l[i]) == l[j], 0, len(l)), 0, old(len(l))))
    ensures("distinct_stay_distinct", implies(old(all_distinct(l)), all_distinct(l)))


# ----------------------------------------------------------------------------- run
def D(sim):
    return sim.simulated_datetime


def clock_patched(sim):
    return datetime.datetime == NEW_DT and D(sim)._real_datetime is not None


def sim_ready(sim):
    """what every call of _process_market_books needs (its requires) - kept as an invariant of all loops of run"""
    return strategies_distinct(sim) and queue_distinct(sim) and registry_coherent(sim)


def fronts_ok(cycles):
    """every queued front is the last element its generator handed out, keyed by that batch's epoch; the generators satisfy gen_ok"""
    return forall(lambda c: allocated(cycles[c]) and allocated(cycles[c][2]) and allocated(cycles[c][1])
                  and 1 <= cycles[c][2].g_pos and cycles[c][2].g_pos <= len(cycles[c][2].g_seq)
                  and cycles[c][1] is cycles[c][2].g_seq[cycles[c][2].g_pos - 1]
                  and cycles[c][0] == epoch(cycles[c][1]) and gen_ok(cycles[c][2]) and cycles[c][2].g_serial < config.g_gen_counter, 0, len(cycles))


def gens_distinct(cycles):
    return forall_int(lambda a, b: implies(0 <= a and a < b and b < len(cycles), cycles[a][2] != cycles[b][2]))


def queued(cycles, g):
    return exists(lambda c: cycles[c][2] == g, 0, len(cycles))


def GS():
    """the ARBITRARY generator (serial config.g_watch_serial) the exactly-once clause is stated for"""
    return config.g_watched_gen


def skolem_ok(sim):
    """the arbitrary generator was created for the group / market being processed, g_j is a position of its data, g_B that batch"""
    return GS().g_serial == config.g_watch_serial and D(sim).g_start <= config.g_watch_serial and config.g_watch_serial < config.g_gen_counter \
        and 0 <= D(sim).g_j and D(sim).g_j < len(GS().g_seq) and D(sim).g_B is GS().g_seq[D(sim).g_j]


def done(cycles):
    """number of batches of the arbitrary generator that have been delivered"""
    return GS().g_pos - (1 if queued(cycles, GS()) else 0)


@contract("flumine/simulation/simulation.py::FlumineSimulation.run", tags=["C14-wip"], patched_datetime=True, list_shift_axioms=True)
def _(self):
    requires("raise_errors_off", not config.raise_errors)
    requires("ready", sim_ready(self))
    raises(RunError, when=not self.clients.simulated, label="not_a_simulated_client")
    raises(ClientError, label="framework_refuses_to_start", ensures=datetime.datetime == old(datetime.datetime))
    modifies_module("flumine.config", "current_time")
    modifies_module("flumine.config", "simulated")
    modifies_module("datetime", "datetime")
    modifies_module("flumine.config", "g_gen_counter")
    modifies_module("flumine.config", "g_watched_gen")
    modifies(self.simulated_datetime, "_real_datetime")
    modifies_all("SimulatedDateTime.g_start")
    # everything a call of _process_market_books may change (its frame), plus the ghost monitors and the generators
    modifies_all("BaseStrategy.g_new_market")
    modifies_all("BaseStrategy.g_check")
    modifies_all("BaseStrategy.g_check_true")
    modifies_all("BaseStrategy.g_process")
    modifies_all("BaseStrategy.g_orders")
    modifies_all("BaseStrategy.g_orders_w")
    modifies_all("BaseStrategy.g_kind")
    modifies_all("BaseStrategy._invested")
    modifies_all("BaseOrderPackage.g_handled")
    modifies_all("BaseOrder.status")
    modifies_all("BaseOrder.complete")
    modifies_all("BaseOrder.date_time_status_update")
    modifies_all("BaseOrder.date_time_execution_complete")
    modifies_all("UpdateData.size_reduction")
    modifies_all("UpdateData.new_price")
    modifies_all("Trade.status")
    modifies_all("Trade.date_time_complete")
    modifies_all("RunnerContext.datetime_last_reset")
    modifies_all("Middleware.gm_calls")
    modifies_all("Middleware.gm_kind")
    modifies_all("Middleware.gm_book")
    modifies_all("Callback.gc_calls")
    modifies_all("Callback.gc_kind")
    modifies_all("Callback.gc_ret")
    modifies_all("Market.closed")
    modifies_all("Market.date_time_closed")
    modifies_all("Market.orders_cleared")
    modifies_all("Market.market_cleared")
    modifies_all("Market.update_market_catalogue")
    modifies_all("Market.market_book")
    modifies_all("Blotter._strategy_orders")
    modifies_all("BaseStream.g_gen")
    modifies_all("StreamGen.g_pos")
    modifies_all("SimulatedDateTime.g_have_last")
    modifies_all("SimulatedDateTime.g_last_epoch")
    modifies_all("SimulatedDateTime.g_chrono")
    modifies_all("SimulatedDateTime.g_cnt")
    modifies_all("SimulatedDateTime.g_cnt2")
    modifies_all("SimulatedDateTime.g_order_ok")
    modifies_lists_of(ATOM)
    modifies_lists_of(Ref("BaseOrder"))
    modifies_list(self.handler_queue)
    modifies_map(self.markets._markets)
    modifies_map(self.markets.events)
    local(event_group_streams=MapOfDefault(Opt(ATOM), ListOf(Ref("BaseStream"))), cycles=ListOf(Ref("Cycle")), streams=ListOf(Ref("BaseStream")),
          market_book=ListOf(Ref("MarketBook")), stream_gen=Ref("StreamGen"), publish_time_epoch=REAL, event_group=Opt(ATOM))
    # ---- loop 0: grouping the streams
    invariant(0, "clock_patched", clock_patched(self) and D(self)._real_datetime == old(datetime.datetime))
    invariant(0, "group_lists_are_new_lists", implies(None in event_group_streams, event_group_streams[None] is not self.streams._streams)
              and forall_atom(lambda k: implies(k in event_group_streams, event_group_streams[k] is not self.streams._streams)))
    invariant(0, "registered_streams_untouched", len(self.streams._streams) == old(len(self.streams._streams))
              and forall(lambda j: self.streams._streams[j] == old(self.streams._streams[j]), 0, len(self.streams._streams)))
    # ---- loop 1: one event group / one bucket of single markets after the other
    invariant(1, "clock_patched", clock_patched(self) and D(self)._real_datetime == old(datetime.datetime))
    invariant(1, "ready", sim_ready(self))
    # ---- loop 2: the first update of every market of the group
    invariant(2, "clock_patched", clock_patched(self) and D(self)._real_datetime == old(datetime.datetime))
    invariant(2, "ready", sim_ready(self))
    invariant(2, "one_front_per_stream_so_far_a", len(cycles) == _i2)
    invariant(2, "one_front_per_stream_so_far_b", fronts_ok(cycles))
    invariant(2, "one_front_per_stream_so_far_c", gens_distinct(cycles))
    invariant(2, "one_front_per_stream_so_far_d", forall(lambda c: cycles[c][2].g_pos == 1 and cycles[c][2].g_stream == streams[c]
                                                         and D(self).g_start <= cycles[c][2].g_serial, 0, len(cycles)))
    invariant(2, "arbitrary_generator_is_queued_once_created", D(self).g_start <= config.g_gen_counter
              and implies(D(self).g_start <= config.g_watch_serial and config.g_watch_serial < config.g_gen_counter,
                          GS().g_serial == config.g_watch_serial and queued(cycles, GS()) and GS().g_pos == 1 and gen_ok(GS())))
    invariant(2, "nothing_delivered_yet", not D(self).g_have_last and D(self).g_chrono and D(self).g_order_ok and D(self).g_cnt == 0 and D(self).g_cnt2 == 0)
    # ---- loop 3: the merge
    invariant(3, "clock_patched", clock_patched(self) and D(self)._real_datetime == old(datetime.datetime))
    invariant(3, "ready", sim_ready(self))
    invariant(3, "fronts", fronts_ok(cycles) and gens_distinct(cycles))
    invariant(3, "chronological_so_far", D(self).g_chrono and implies(D(self).g_have_last, forall(lambda c: D(self).g_last_epoch <= cycles[c][0], 0, len(cycles))))
    invariant(3, "group_generators", forall(lambda c: D(self).g_start <= cycles[c][2].g_serial, 0, len(cycles)))
    invariant(3, "arbitrary_batch_delivered_iff_its_turn_has_come", implies(skolem_ok(self),
              D(self).g_cnt == (1 if D(self).g_j < done(cycles) else 0)
              and (queued(cycles, GS()) or GS().g_pos == len(GS().g_seq))
              and gen_ok(GS()) and 0 <= GS().g_pos and GS().g_pos <= len(GS().g_seq)))
    loop_exit(3, "event_group_chronological", D(self).g_chrono)
    loop_exit(3, "every_update_of_the_group_delivered_exactly_once", implies(skolem_ok(self), D(self).g_cnt == 1))
    # ---- loops 4 / 5: single markets, one after the other, each in file order
    invariant(4, "clock_patched", clock_patched(self) and D(self)._real_datetime == old(datetime.datetime))
    invariant(4, "ready", sim_ready(self))
    invariant(5, "clock_patched", clock_patched(self) and D(self)._real_datetime == old(datetime.datetime))
    invariant(5, "ready", sim_ready(self))
    invariant(5, "delivered_in_file_order_once", gen_ok(_it5) and D(self).g_chrono
              and implies(D(self).g_have_last and _i5 > 0, D(self).g_last_epoch == epoch(_it5.g_seq[_i5 - 1]))
              and implies(0 <= D(self).g_j and D(self).g_j < len(_it5.g_seq) and D(self).g_B is _it5.g_seq[D(self).g_j],
                          D(self).g_cnt == (1 if D(self).g_j < _i5 else 0)))
    loop_exit(5, "every_update_of_the_market_delivered_exactly_once_in_order", D(self).g_chrono
              and implies(0 <= D(self).g_j and D(self).g_j < len(_it5.g_seq) and D(self).g_B is _it5.g_seq[D(self).g_j], D(self).g_cnt == 1))
    ensures("real_clock_class_restored", datetime.datetime == old(datetime.datetime))
