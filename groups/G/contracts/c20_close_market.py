"""C20 - market closure is processed once, with results, for the right strategies; removal releases the market.

Functions under contract (verified from the real AST), tag C20:
  BaseFlumine._process_close_market#book      a MarketBook closes the market, SIMULATION instance (clients.simulated)
  BaseFlumine._process_close_market#recorder  a raw streaming datum (dict) closes it (recorder mode), SIMULATION instance
      (isinstance(event.event, dict) is decided by the class of the event payload: two instances of the same function)
  BaseFlumine._remove_market
  BaseFlumine.log_control#c20         second instance of log_control whose calls are traced by ghost code (the base instance of
                                      c13_dispatch.py is shared with C13 / C14 / C11 and stays untouched)
  Market.close_market, Market.elapsed_seconds_closed, Market.open_market#c20, Markets.add_market#c20, Markets.remove_market,
  SimulatedMiddleware.remove_market
NOT CLAIMED (tag C20-wip): the LIVE instances #book_live / #recorder_live (same clauses under `not clients.simulated`): the
obligations on the path through the removal loop are UNDECIDED (solver time-outs), see NOTES_C20.md.

Method (as in c13_dispatch.py).  Calls into code that is not verified here are observed through GHOST fields that only the ASSUMED
contracts (trusted / @virtual) or ghost_before_call code write.  "Every strategy ..." is proved for ONE ARBITRARY registered
strategy SK(self) = strategies[g_k] (ghost index, never written), "exactly the markets ..." for ONE ARBITRARY market object
self.g_w (ghost, never written): universal generalisation.

ASSUMED contracts (listed in NOTES_C20.md): BaseStrategy.process_closed_market (unknown user code; called UNWRAPPED by the framework -
assumed NOT to raise, see notes), Middleware.remove_market (unknown user code, assumed not to raise), Blotter.process_closed_market
(subject of C08), BaseStrategy.remove_market, BaseFlumine._process_cleared_orders / _process_cleared_markets, the betfairlightweight
ClearedOrders constructor, Market.__call__ (verified under C13), Market.cleared (verified under C08), Clients.simulated (abstract
property, c14_run.py).  The framework clock does not advance during one step (A6: utcnow() reads config.current_time).
"""

inline(
    "flumine/clients/clients.py::Clients.__iter__",
    "flumine/markets/markets.py::Markets.__iter__",
)

# ----------------------------------------------------------------------------- vocabulary
# payload classes of a CloseMarketEvent (schema-only): the closing MarketBook, or the raw datum the recorder path queues
# (_process_raw_data queues it only when "id" is present and after it has stored "_stream_id")
schema("ClosedBookEvent", event=Ref("MarketBook"), _time_created=REAL, exchange=ATOM)
schema("ClosedDatumEvent", event=Ref("RawDatum"), _time_created=REAL, exchange=ATOM)  # RawDatum: the struct of c13_wrappers.py

schema("Clients", _clients=ListOf(Ref("BaseClient")))
schema("BaseFlumine",
       g_w=Ref("Market"),  # ghost, never written: ONE ARBITRARY market object (removal clauses)
       g_close_logged=INT, g_close_logged_event=Ref("Object"),  # trace of log_control#c20 calls
       g_cleared_orders=INT, g_cleared_orders_id=Opt(ATOM),  # trace of _process_cleared_orders (assumed contract)
       g_cleared_markets=INT, g_cleared_markets_n=INT)  # trace of _process_cleared_markets: calls / summaries carried
schema("Market", g_removed=INT)  # number of _remove_market calls for this market object (ghost_before_call)
schema("Blotter", g_settled=INT, g_settled_book=Opt(Ref("MarketBook")), g_settled_market=Opt(Ref("Market")))
# market_filter: a dict, or a list of dicts / None (= never equal to {}): Opt(dict)
schema("BaseStrategy", market_filter=Opt(MapOf(ATOM, Ref("Object"))),
       g_closed=INT, g_closed_market=Opt(Ref("Market")), g_closed_arg=Opt(Ref("Object")),
       g_rm=INT, g_rm_id=Opt(ATOM))
schema("Middleware", gm_rm=INT, gm_rm_market=Opt(Ref("Market")))
schema("ClearedOrders", market_id=Opt(ATOM), g_n=INT)
schema("ClearedOrdersEvent", event=Ref("ClearedOrders"))
schema("ClearedMarketsEvent", event=Ref("ClearedOrders"))

HOUR = 3600


def closes(m):
    """the statement's 'closed for more than an hour' (datetimes are seconds, A6: one clock value per step)"""
    return m.closed and m.date_time_closed is not None and config.current_time - m.date_time_closed > HOUR


def wants_closed(s, stream_id):
    """the strategy is subscribed to the market's stream, or has an empty market filter"""
    return stream_id in s.stream_ids or s.market_filter == {}


def registered(fl, m):
    return m.market_id in fl.markets._markets and fl.markets._markets[m.market_id] == m


def keys_are_ids(fl):
    """representation invariant of the registry (Markets.add_market is only called with (market.market_id, market))"""
    return forall_atom(lambda k: implies(k in fl.markets._markets, fl.markets._markets[k].market_id == k))


# ----------------------------------------------------------------------------- assumed: unknown user code (A4)
@virtual("BaseStrategy", "process_closed_market", tags=["C20"], shadows_default=True)
def _(self, market: Ref("Market"), market_book: Ref("Object")):
    """ASSUMED (A4): counts its invocations and remembers its arguments; writes nothing the framework reads (no re-registration of
    strategies / markets, no change of subscriptions) and - the framework calls it WITHOUT an error-handling wrapper - does NOT RAISE
    (a raising callback aborts _process_close_market: later strategies are not served and the close is not logged; see notes)"""
    modifies(self, "g_closed")
    modifies(self, "g_closed_market")
    modifies(self, "g_closed_arg")
    ensures("counted", self.g_closed == old(self.g_closed) + 1 and self.g_closed_market == market and self.g_closed_arg == market_book)


@virtual("Middleware", "remove_market", tags=["C20"], shadows_default=True)
def _(self, market: Ref("Market")):
    """ASSUMED (A4): releases its state for the market (observed by the ghost fields), does not raise"""
    modifies(self, "gm_rm")
    modifies(self, "gm_rm_market")
    ensures("counted", self.gm_rm == old(self.gm_rm) + 1 and self.gm_rm_market == market)


# ----------------------------------------------------------------------------- assumed: callees verified elsewhere / not at all
@contract("flumine/markets/blotter.py::Blotter.process_closed_market", tags=["C20"])
def _(self, market: Ref("Market"), market_book: Ref("MarketBook")):
    trusted("subject of C08 (every order receives the runner's result and the settlement terms): only the call is observed here")
    modifies(self, "g_settled")
    modifies(self, "g_settled_book")
    modifies(self, "g_settled_market")
    modifies_all("BaseOrder.runner_status")
    modifies_all("BaseOrder.market_type")
    modifies_all("BaseOrder.each_way_divisor")
    modifies_all("BaseOrder.number_of_dead_heat_winners")
    modifies_all("BaseOrder.line_range_result")
    ensures("counted", self.g_settled == old(self.g_settled) + 1 and self.g_settled_book == market_book and self.g_settled_market == market)


@contract("flumine/baseflumine.py::BaseFlumine._process_cleared_orders", tags=["C20"])
def _(self, event: Ref("ClearedOrdersEvent")):
    trusted("emits one ClearedOrdersMetaEvent iff the market's blotter holds orders: not verified; only the call is observed")
    modifies(self, "g_cleared_orders")
    modifies(self, "g_cleared_orders_id")
    ensures("counted", self.g_cleared_orders == old(self.g_cleared_orders) + 1 and self.g_cleared_orders_id == event.event.market_id)


@contract("flumine/baseflumine.py::BaseFlumine._process_cleared_markets", tags=["C20"])
def _(self, event: Ref("ClearedMarketsEvent")):
    trusted("logs the event (one ClearedMarketsEvent per call): not verified; only the call is observed")
    modifies(self, "g_cleared_markets")
    modifies(self, "g_cleared_markets_n")
    ensures("counted", self.g_cleared_markets == old(self.g_cleared_markets) + 1
            and self.g_cleared_markets_n == old(self.g_cleared_markets_n) + event.event.g_n)


@external("betfairlightweight.resources.ClearedOrders", tags=["C20"], fresh_result=True)
def _(moreAvailable: BOOL, clearedOrders: ListOf(Ref("ClearedMarket"))) -> Ref("ClearedOrders"):
    """ASSUMED (A7): the resource object carries the summaries it is given (g_n of them)"""
    ensures("carries", result.g_n == len(clearedOrders))


# ----------------------------------------------------------------------------- log_control, traced
@contract("flumine/baseflumine.py::BaseFlumine.log_control#c20", tags=["C20"])
def _(self, event: Ref("BaseEvent")):
    ghost_before_call("""
self.g_close_logged = self.g_close_logged + 1
self.g_close_logged_event = event
""")
    invariant(0, "nothing_observable", True)


# ----------------------------------------------------------------------------- Market: close / elapsed / re-open
@contract("flumine/markets/market.py::Market.close_market", tags=["C20"])
def _(self):
    modifies(self, "closed")
    modifies(self, "date_time_closed")
    ensures("closed_now", self.closed and self.date_time_closed == config.current_time)


@contract("flumine/markets/market.py::Market.elapsed_seconds_closed", tags=["C20"], inline_at_calls=True)
def _(self) -> Opt(REAL):
    ensures("seconds_since_the_last_close", implies(self.closed and self.date_time_closed is not None and self.date_time_closed != 0,
                                                    result == config.current_time - self.date_time_closed))
    ensures("none_for_an_open_market", implies(not self.closed, result is None))


# ----------------------------------------------------------------------------- _remove_market
def MK(fl):
    """ONE ARBITRARY registered middleware"""
    return fl._market_middleware[fl.g_m]


def arbitrary_middleware(fl):
    return 0 <= fl.g_m and fl.g_m < len(fl._market_middleware)


def middleware_distinct(fl):
    return forall_int(lambda a: implies(0 <= a and a < len(fl._market_middleware) and a != fl.g_m,
                                        fl._market_middleware[a] != fl._market_middleware[fl.g_m]))


@contract("flumine/strategy/strategy.py::BaseStrategy.remove_market", tags=["C20"])
def _(self, market_id: ATOM):
    trusted("deletes exactly the runner contexts (_invested keys) of the market: not verified here; only the call is observed")
    modifies_map(self._invested)
    modifies(self, "g_rm")
    modifies(self, "g_rm_id")
    ensures("counted", self.g_rm == old(self.g_rm) + 1 and self.g_rm_id == market_id)


@contract("flumine/markets/markets.py::Markets.remove_market", tags=["C20"], list_shift_axioms=True)
def _(self, market_id: ATOM):
    raises(KeyError, when=market_id not in self._markets, iff=True, label="unknown_id")
    modifies_map(self._markets)
    modifies_list(self.events[self._markets[market_id].event_id], when=market_id in self._markets and self._markets[market_id].event_id in self.events)
    ensures("gone", market_id not in self._markets)
    ensures("other_ids_untouched", forall_atom(lambda k: implies(k != market_id, (k in self._markets) == old(k in self._markets)
                                                                 and implies(old(k in self._markets), self._markets[k] == old(self._markets[k])))))


@contract("flumine/baseflumine.py::BaseFlumine._remove_market", tags=["C20"])
def _(self, market: Ref("Market"), clear: BOOL = True):
    ghost_before_call("""
market.g_removed = market.g_removed + 1
""")
    requires("registered_once", strategies_distinct(self) and middleware_distinct(self))
    raises(KeyError, when=clear and market.market_id not in self.markets._markets, iff=True, label="clearing_an_unregistered_market",
           modifies=[("all", "Middleware.gm_rm"), ("all", "Middleware.gm_rm_market"), ("all", "BaseStrategy.g_rm"), ("all", "BaseStrategy.g_rm_id"), ("all", "BaseStrategy._invested")])
    modifies_all("Middleware.gm_rm")
    modifies_all("Middleware.gm_rm_market")
    modifies_all("BaseStrategy.g_rm")
    modifies_all("BaseStrategy.g_rm_id")
    modifies_maps_of(MapOf(Tup(ATOM, INT, REAL), Ref("RunnerContext")))
    modifies_map(self.markets._markets, when=clear)
    modifies_list(self.markets.events[self.markets._markets[market.market_id].event_id], when=clear and market.market_id in self.markets._markets and self.markets._markets[market.market_id].event_id in self.markets.events)
    invariant(0, "released_once_so_far", implies(arbitrary_middleware(self), MK(self).gm_rm == old(MK(self).gm_rm) + (1 if self.g_m < _i0 else 0)
                                                 and implies(self.g_m < _i0, MK(self).gm_rm_market == market)))
    invariant(1, "middleware_done", implies(arbitrary_middleware(self), MK(self).gm_rm == old(MK(self).gm_rm) + 1 and MK(self).gm_rm_market == market))
    invariant(1, "released_once_so_far", implies(arbitrary_strategy(self), SK(self).g_rm == old(SK(self).g_rm) + (1 if self.g_k < _i1 else 0)
                                                 and implies(self.g_k < _i1, SK(self).g_rm_id == market.market_id)))
    ensures("every_middleware_releases_the_market_once", implies(arbitrary_middleware(self), MK(self).gm_rm == old(MK(self).gm_rm) + 1 and MK(self).gm_rm_market == market))
    ensures("every_strategy_releases_the_market_once", implies(arbitrary_strategy(self), SK(self).g_rm == old(SK(self).g_rm) + 1 and SK(self).g_rm_id == market.market_id))
    ensures("unregistered_iff_clear", implies(clear, market.market_id not in self.markets._markets))
    ensures("registry_kept_without_clear", implies(not clear, forall_atom(lambda k: (k in self.markets._markets) == old(k in self.markets._markets)
                                                                               and implies(old(k in self.markets._markets), self.markets._markets[k] == old(self.markets._markets[k])))))
    ensures("other_ids_untouched", forall_atom(lambda k: implies(k != market.market_id, (k in self.markets._markets) == old(k in self.markets._markets)
                                                                 and implies(old(k in self.markets._markets), self.markets._markets[k] == old(self.markets._markets[k])))))


# ----------------------------------------------------------------------------- _process_close_market
def M_of(fl, market_id):
    return fl.markets._markets[market_id]


def known(fl, market_id):
    return market_id in fl.markets._markets


@contract("flumine/baseflumine.py::BaseFlumine._process_close_market#book", tags=["C20"],
          callee_variants={"flumine/baseflumine.py::BaseFlumine.log_control": "c20"})
def _(self, event: Ref("ClosedBookEvent")):
    requires("simulation_instance", self.clients.simulated)  # case split on the mode: the live instance is #book_live
    requires("arbitrary_strategy", arbitrary_strategy(self))
    requires("registered_once", strategies_distinct(self) and middleware_distinct(self))
    requires("registry_keys_are_market_ids", keys_are_ids(self))
    requires("commission_rates", forall(lambda i: self.clients._clients[i].commission_base >= 0, 0, len(self.clients._clients)))
    requires("clock_after_the_epoch", config.current_time > 0 and (self.g_w.date_time_closed is None or self.g_w.date_time_closed > 0))
    modifies_all("Market.closed")
    modifies_all("Market.date_time_closed")
    modifies_all("Market.market_book")
    modifies_all("Market.update_market_catalogue")
    modifies_all("Market.g_removed")
    modifies_all("Blotter.g_settled")
    modifies_all("Blotter.g_settled_book")
    modifies_all("Blotter.g_settled_market")
    modifies_all("BaseOrder.runner_status")
    modifies_all("BaseOrder.market_type")
    modifies_all("BaseOrder.each_way_divisor")
    modifies_all("BaseOrder.number_of_dead_heat_winners")
    modifies_all("BaseOrder.line_range_result")
    modifies_all("BaseStrategy.g_closed")
    modifies_all("BaseStrategy.g_closed_market")
    modifies_all("BaseStrategy.g_closed_arg")
    modifies_all("BaseStrategy.g_rm")
    modifies_all("BaseStrategy.g_rm_id")
    modifies_all("Middleware.gm_rm")
    modifies_all("Middleware.gm_rm_market")
    modifies(self, "g_close_logged")
    modifies(self, "g_close_logged_event")
    modifies(self, "g_cleared_orders")
    modifies(self, "g_cleared_orders_id")
    modifies(self, "g_cleared_markets")
    modifies(self, "g_cleared_markets_n")
    modifies_maps_of(MapOf(Tup(ATOM, INT, REAL), Ref("RunnerContext")))
    modifies_maps_of(MapOfDefault(Opt(Ref("BaseClient")), ListOf(Ref("BaseOrder"))))
    modifies_map(self.markets._markets)
    modifies_lists_of(Ref("Market"))  # the per-event lists of Markets.events (a removed market leaves its event's list)
    local(closed_markets=ListOf(Ref("Market")), cleared_markets=Ref("ClearedOrders"))
    # strategy loop
    invariant(0, "blotter_settled_with_the_final_book_before_any_callback",
              market.blotter.g_settled == old(M_of(self, event.event.market_id).blotter.g_settled) + 1
              and market.blotter.g_settled_book == event.event and market.blotter.g_settled_market == market and market.market_book == event.event and market.closed)
    invariant(0, "closed_callback_once_so_far", SK(self).g_closed == old(SK(self).g_closed)
              + (1 if self.g_k < _i0 and wants_closed(SK(self), event.event.streaming_unique_id) else 0))
    invariant(0, "closed_callback_arguments", implies(self.g_k < _i0 and wants_closed(SK(self), event.event.streaming_unique_id),
                                                     SK(self).g_closed_market == market and SK(self).g_closed_arg == event.event))
    ensures("unknown_market_no_effect", implies(old(not known(self, event.event.market_id)),
                                                SK(self).g_closed == old(SK(self).g_closed) and self.g_close_logged == old(self.g_close_logged)
                                                and self.g_cleared_orders == old(self.g_cleared_orders) and self.g_cleared_markets == old(self.g_cleared_markets)
                                                and self.g_w.g_removed == old(self.g_w.g_removed) and self.g_w.closed == old(self.g_w.closed)))
    # per-client cleared-market summaries (simulation)
    invariant(1, "orders_reported_cleared_once", self.g_cleared_orders == old(self.g_cleared_orders) + 1 and self.g_cleared_orders_id == event.event.market_id)
    invariant(1, "one_summary_per_client_so_far", self.g_cleared_markets == old(self.g_cleared_markets) + _i1 and self.g_cleared_markets_n == old(self.g_cleared_markets_n) + _i1)
    # removal of expired markets (live)
    invariant(2, "snapshot_distinct", forall_int(lambda a, b: implies(0 <= a and a < b and b < len(_seq2), _seq2[a] != _seq2[b])))
    invariant(2, "snapshot_members_have_been_closed_for_an_hour", forall(lambda j: closes(_seq2[j]), 0, len(_seq2)))
    invariant(2, "rest_still_registered", forall(lambda j: registered(self, _seq2[j]), _i2, len(_seq2)))
    invariant(2, "every_expired_registered_market_is_in_the_snapshot", implies(old(registered(self, self.g_w)) and closes(self.g_w), exists(lambda j: _seq2[j] == self.g_w, 0, len(_seq2))))
    invariant(2, "snapshot_members_were_registered", forall(lambda j: old(registered(self, _seq2[j])), 0, len(_seq2)))
    invariant(2, "removed_once_so_far", self.g_w.g_removed == old(self.g_w.g_removed) + (1 if exists(lambda j: _seq2[j] == self.g_w, 0, _i2) else 0))
    ensures("market_is_closed", implies(old(known(self, event.event.market_id)), old(M_of(self, event.event.market_id)).closed))
    ensures("close_market_called_iff_it_was_open", implies(old(known(self, event.event.market_id)),
            old(M_of(self, event.event.market_id)).date_time_closed == (config.current_time if old(not M_of(self, event.event.market_id).closed) else old(M_of(self, event.event.market_id).date_time_closed))))
    ensures("market_holds_the_final_book", implies(old(known(self, event.event.market_id)), old(M_of(self, event.event.market_id)).market_book == event.event))
    ensures("blotter_settled_exactly_once_with_the_final_book", implies(old(known(self, event.event.market_id)),
            old(M_of(self, event.event.market_id)).blotter.g_settled == old(M_of(self, event.event.market_id).blotter.g_settled) + 1
            and old(M_of(self, event.event.market_id)).blotter.g_settled_book == event.event
            and old(M_of(self, event.event.market_id)).blotter.g_settled_market == old(M_of(self, event.event.market_id))))
    ensures("closed_callback_exactly_once_iff_subscribed_or_empty_filter", implies(old(known(self, event.event.market_id)),
            SK(self).g_closed == old(SK(self).g_closed) + (1 if wants_closed(SK(self), event.event.streaming_unique_id) else 0)))
    ensures("closed_callback_gets_the_market_and_the_final_book", implies(old(known(self, event.event.market_id)) and wants_closed(SK(self), event.event.streaming_unique_id),
            SK(self).g_closed_market == old(M_of(self, event.event.market_id)) and SK(self).g_closed_arg == event.event))
    ensures("simulation_orders_reported_cleared_once", implies(old(known(self, event.event.market_id)) and self.clients.simulated,
            self.g_cleared_orders == old(self.g_cleared_orders) + 1 and self.g_cleared_orders_id == event.event.market_id))
    ensures("simulation_one_cleared_market_summary_per_client", implies(old(known(self, event.event.market_id)) and self.clients.simulated,
            self.g_cleared_markets == old(self.g_cleared_markets) + len(self.clients._clients)
            and self.g_cleared_markets_n == old(self.g_cleared_markets_n) + len(self.clients._clients)))
    ensures("live_nothing_reported_cleared", implies(not self.clients.simulated,
            self.g_cleared_orders == old(self.g_cleared_orders) and self.g_cleared_markets == old(self.g_cleared_markets)))
    ensures("close_event_logged_once", implies(old(known(self, event.event.market_id)), self.g_close_logged == old(self.g_close_logged) + 1 and self.g_close_logged_event == event))
    ensures("live_removes_exactly_the_markets_closed_for_more_than_an_hour", implies(old(known(self, event.event.market_id)) and not self.clients.simulated,
            self.g_w.g_removed == old(self.g_w.g_removed) + (1 if old(registered(self, self.g_w)) and closes(self.g_w) else 0)))
    ensures("simulation_removes_the_closed_market_only", implies(old(known(self, event.event.market_id)) and self.clients.simulated,
            self.g_w.g_removed == old(self.g_w.g_removed) + (1 if self.g_w == old(M_of(self, event.event.market_id)) else 0)))
    ensures("simulation_keeps_the_registry", implies(self.clients.simulated, forall_atom(lambda k: (k in self.markets._markets) == old(k in self.markets._markets)
            and implies(old(k in self.markets._markets), self.markets._markets[k] == old(self.markets._markets[k])))))


# the LIVE instance (same clauses, `not clients.simulated`): NOT CLAIMED - the obligations on the path through the removal loop stay
# undecided (solver time-outs on the filter-comprehension / dict-order axioms), see NOTES_C20.md
@contract("flumine/baseflumine.py::BaseFlumine._process_close_market#book_live", tags=["C20-wip"],
          callee_variants={"flumine/baseflumine.py::BaseFlumine.log_control": "c20"})
def _(self, event: Ref("ClosedBookEvent")):
    requires("live_instance", not self.clients.simulated)
    requires("arbitrary_strategy", arbitrary_strategy(self))
    requires("registered_once", strategies_distinct(self) and middleware_distinct(self))
    requires("registry_keys_are_market_ids", keys_are_ids(self))
    requires("commission_rates", forall(lambda i: self.clients._clients[i].commission_base >= 0, 0, len(self.clients._clients)))
    requires("clock_after_the_epoch", config.current_time > 0 and (self.g_w.date_time_closed is None or self.g_w.date_time_closed > 0))
    modifies_all("Market.closed")
    modifies_all("Market.date_time_closed")
    modifies_all("Market.market_book")
    modifies_all("Market.update_market_catalogue")
    modifies_all("Market.g_removed")
    modifies_all("Blotter.g_settled")
    modifies_all("Blotter.g_settled_book")
    modifies_all("Blotter.g_settled_market")
    modifies_all("BaseOrder.runner_status")
    modifies_all("BaseOrder.market_type")
    modifies_all("BaseOrder.each_way_divisor")
    modifies_all("BaseOrder.number_of_dead_heat_winners")
    modifies_all("BaseOrder.line_range_result")
    modifies_all("BaseStrategy.g_closed")
    modifies_all("BaseStrategy.g_closed_market")
    modifies_all("BaseStrategy.g_closed_arg")
    modifies_all("BaseStrategy.g_rm")
    modifies_all("BaseStrategy.g_rm_id")
    modifies_all("Middleware.gm_rm")
    modifies_all("Middleware.gm_rm_market")
    modifies(self, "g_close_logged")
    modifies(self, "g_close_logged_event")
    modifies(self, "g_cleared_orders")
    modifies(self, "g_cleared_orders_id")
    modifies(self, "g_cleared_markets")
    modifies(self, "g_cleared_markets_n")
    modifies_maps_of(MapOf(Tup(ATOM, INT, REAL), Ref("RunnerContext")))
    modifies_maps_of(MapOfDefault(Opt(Ref("BaseClient")), ListOf(Ref("BaseOrder"))))
    modifies_map(self.markets._markets)
    modifies_lists_of(Ref("Market"))  # the per-event lists of Markets.events (a removed market leaves its event's list)
    local(closed_markets=ListOf(Ref("Market")), cleared_markets=Ref("ClearedOrders"))
    # strategy loop
    invariant(0, "blotter_settled_with_the_final_book_before_any_callback",
              market.blotter.g_settled == old(M_of(self, event.event.market_id).blotter.g_settled) + 1
              and market.blotter.g_settled_book == event.event and market.blotter.g_settled_market == market and market.market_book == event.event and market.closed)
    invariant(0, "closed_callback_once_so_far", SK(self).g_closed == old(SK(self).g_closed)
              + (1 if self.g_k < _i0 and wants_closed(SK(self), event.event.streaming_unique_id) else 0))
    invariant(0, "closed_callback_arguments", implies(self.g_k < _i0 and wants_closed(SK(self), event.event.streaming_unique_id),
                                                     SK(self).g_closed_market == market and SK(self).g_closed_arg == event.event))
    ensures("unknown_market_no_effect", implies(old(not known(self, event.event.market_id)),
                                                SK(self).g_closed == old(SK(self).g_closed) and self.g_close_logged == old(self.g_close_logged)
                                                and self.g_cleared_orders == old(self.g_cleared_orders) and self.g_cleared_markets == old(self.g_cleared_markets)
                                                and self.g_w.g_removed == old(self.g_w.g_removed) and self.g_w.closed == old(self.g_w.closed)))
    # per-client cleared-market summaries (simulation)
    invariant(1, "orders_reported_cleared_once", self.g_cleared_orders == old(self.g_cleared_orders) + 1 and self.g_cleared_orders_id == event.event.market_id)
    invariant(1, "one_summary_per_client_so_far", self.g_cleared_markets == old(self.g_cleared_markets) + _i1 and self.g_cleared_markets_n == old(self.g_cleared_markets_n) + _i1)
    # removal of expired markets (live)
    invariant(2, "snapshot_distinct", forall_int(lambda a, b: implies(0 <= a and a < b and b < len(_seq2), _seq2[a] != _seq2[b])))
    invariant(2, "snapshot_members_have_been_closed_for_an_hour", forall(lambda j: closes(_seq2[j]), 0, len(_seq2)))
    invariant(2, "rest_still_registered", forall(lambda j: registered(self, _seq2[j]), _i2, len(_seq2)))
    invariant(2, "every_expired_registered_market_is_in_the_snapshot", implies(old(registered(self, self.g_w)) and closes(self.g_w), exists(lambda j: _seq2[j] == self.g_w, 0, len(_seq2))))
    invariant(2, "snapshot_members_were_registered", forall(lambda j: old(registered(self, _seq2[j])), 0, len(_seq2)))
    invariant(2, "removed_once_so_far", self.g_w.g_removed == old(self.g_w.g_removed) + (1 if exists(lambda j: _seq2[j] == self.g_w, 0, _i2) else 0))
    ensures("market_is_closed", implies(old(known(self, event.event.market_id)), old(M_of(self, event.event.market_id)).closed))
    ensures("close_market_called_iff_it_was_open", implies(old(known(self, event.event.market_id)),
            old(M_of(self, event.event.market_id)).date_time_closed == (config.current_time if old(not M_of(self, event.event.market_id).closed) else old(M_of(self, event.event.market_id).date_time_closed))))
    ensures("market_holds_the_final_book", implies(old(known(self, event.event.market_id)), old(M_of(self, event.event.market_id)).market_book == event.event))
    ensures("blotter_settled_exactly_once_with_the_final_book", implies(old(known(self, event.event.market_id)),
            old(M_of(self, event.event.market_id)).blotter.g_settled == old(M_of(self, event.event.market_id).blotter.g_settled) + 1
            and old(M_of(self, event.event.market_id)).blotter.g_settled_book == event.event
            and old(M_of(self, event.event.market_id)).blotter.g_settled_market == old(M_of(self, event.event.market_id))))
    ensures("closed_callback_exactly_once_iff_subscribed_or_empty_filter", implies(old(known(self, event.event.market_id)),
            SK(self).g_closed == old(SK(self).g_closed) + (1 if wants_closed(SK(self), event.event.streaming_unique_id) else 0)))
    ensures("closed_callback_gets_the_market_and_the_final_book", implies(old(known(self, event.event.market_id)) and wants_closed(SK(self), event.event.streaming_unique_id),
            SK(self).g_closed_market == old(M_of(self, event.event.market_id)) and SK(self).g_closed_arg == event.event))
    ensures("simulation_orders_reported_cleared_once", implies(old(known(self, event.event.market_id)) and self.clients.simulated,
            self.g_cleared_orders == old(self.g_cleared_orders) + 1 and self.g_cleared_orders_id == event.event.market_id))
    ensures("simulation_one_cleared_market_summary_per_client", implies(old(known(self, event.event.market_id)) and self.clients.simulated,
            self.g_cleared_markets == old(self.g_cleared_markets) + len(self.clients._clients)
            and self.g_cleared_markets_n == old(self.g_cleared_markets_n) + len(self.clients._clients)))
    ensures("live_nothing_reported_cleared", implies(not self.clients.simulated,
            self.g_cleared_orders == old(self.g_cleared_orders) and self.g_cleared_markets == old(self.g_cleared_markets)))
    ensures("close_event_logged_once", implies(old(known(self, event.event.market_id)), self.g_close_logged == old(self.g_close_logged) + 1 and self.g_close_logged_event == event))
    ensures("live_removes_exactly_the_markets_closed_for_more_than_an_hour", implies(old(known(self, event.event.market_id)) and not self.clients.simulated,
            self.g_w.g_removed == old(self.g_w.g_removed) + (1 if old(registered(self, self.g_w)) and closes(self.g_w) else 0)))
    ensures("simulation_removes_the_closed_market_only", implies(old(known(self, event.event.market_id)) and self.clients.simulated,
            self.g_w.g_removed == old(self.g_w.g_removed) + (1 if self.g_w == old(M_of(self, event.event.market_id)) else 0)))
    ensures("simulation_keeps_the_registry", implies(self.clients.simulated, forall_atom(lambda k: (k in self.markets._markets) == old(k in self.markets._markets)
            and implies(old(k in self.markets._markets), self.markets._markets[k] == old(self.markets._markets[k])))))


# ----------------------------------------------------------------------------- recorder mode: the closing update is a raw datum (dict)
@contract("flumine/baseflumine.py::BaseFlumine._process_close_market#recorder", tags=["C20"],
          callee_variants={"flumine/baseflumine.py::BaseFlumine.log_control": "c20"})
def _(self, event: Ref("ClosedDatumEvent")):
    requires("simulation_instance", self.clients.simulated)  # case split on the mode: the live instance is #recorder_live
    requires("closing_datum_carries_id_and_stream", "id" in event.event and "_stream_id" in event.event)  # its only producer, _process_raw_data, queues it under `"id" in datum` after storing "_stream_id"
    requires("arbitrary_strategy", arbitrary_strategy(self))
    requires("registered_once", strategies_distinct(self) and middleware_distinct(self))
    requires("registry_keys_are_market_ids", keys_are_ids(self))
    requires("clock_after_the_epoch", config.current_time > 0 and (self.g_w.date_time_closed is None or self.g_w.date_time_closed > 0))
    modifies_all("Market.closed")
    modifies_all("Market.date_time_closed")
    modifies_all("Market.g_removed")
    modifies_all("BaseStrategy.g_closed")
    modifies_all("BaseStrategy.g_closed_market")
    modifies_all("BaseStrategy.g_closed_arg")
    modifies_all("BaseStrategy.g_rm")
    modifies_all("BaseStrategy.g_rm_id")
    modifies_all("Middleware.gm_rm")
    modifies_all("Middleware.gm_rm_market")
    modifies(self, "g_close_logged")
    modifies(self, "g_close_logged_event")
    modifies_maps_of(MapOf(Tup(ATOM, INT, REAL), Ref("RunnerContext")))
    modifies_map(self.markets._markets)
    modifies_lists_of(Ref("Market"))
    local(closed_markets=ListOf(Ref("Market")), cleared_markets=Ref("ClearedOrders"))
    invariant(0, "market_closed_before_any_callback", market.closed and market == old(M_of(self, event.event["id"])))
    invariant(0, "closed_callback_once_so_far", SK(self).g_closed == old(SK(self).g_closed)
              + (1 if self.g_k < _i0 and wants_closed(SK(self), event.event["_stream_id"]) else 0))
    invariant(0, "closed_callback_arguments", implies(self.g_k < _i0 and wants_closed(SK(self), event.event["_stream_id"]),
                                                     SK(self).g_closed_market == market and SK(self).g_closed_arg == event.event))
    invariant(2, "snapshot_distinct", forall_int(lambda a, b: implies(0 <= a and a < b and b < len(_seq2), _seq2[a] != _seq2[b])))
    invariant(2, "snapshot_members_have_been_closed_for_an_hour", forall(lambda j: closes(_seq2[j]), 0, len(_seq2)))
    invariant(2, "rest_still_registered", forall(lambda j: registered(self, _seq2[j]), _i2, len(_seq2)))
    invariant(2, "every_expired_registered_market_is_in_the_snapshot", implies(old(registered(self, self.g_w)) and closes(self.g_w), exists(lambda j: _seq2[j] == self.g_w, 0, len(_seq2))))
    invariant(2, "snapshot_members_were_registered", forall(lambda j: old(registered(self, _seq2[j])), 0, len(_seq2)))
    invariant(2, "removed_once_so_far", self.g_w.g_removed == old(self.g_w.g_removed) + (1 if exists(lambda j: _seq2[j] == self.g_w, 0, _i2) else 0))
    ensures("unknown_market_no_effect", implies(old(not known(self, event.event["id"])),
                                                SK(self).g_closed == old(SK(self).g_closed) and self.g_close_logged == old(self.g_close_logged)
                                                and self.g_w.g_removed == old(self.g_w.g_removed) and self.g_w.closed == old(self.g_w.closed)))
    ensures("market_is_closed", implies(old(known(self, event.event["id"])), old(M_of(self, event.event["id"])).closed))
    ensures("close_market_called_iff_it_was_open", implies(old(known(self, event.event["id"])),
            old(M_of(self, event.event["id"])).date_time_closed == (config.current_time if old(not M_of(self, event.event["id"]).closed) else old(M_of(self, event.event["id"]).date_time_closed))))
    ensures("closed_callback_exactly_once_iff_subscribed_or_empty_filter", implies(old(known(self, event.event["id"])),
            SK(self).g_closed == old(SK(self).g_closed) + (1 if wants_closed(SK(self), event.event["_stream_id"]) else 0)))
    ensures("closed_callback_gets_the_market_and_the_closing_datum", implies(old(known(self, event.event["id"])) and wants_closed(SK(self), event.event["_stream_id"]),
            SK(self).g_closed_market == old(M_of(self, event.event["id"])) and SK(self).g_closed_arg == event.event))
    ensures("close_event_logged_once", implies(old(known(self, event.event["id"])), self.g_close_logged == old(self.g_close_logged) + 1 and self.g_close_logged_event == event))
    ensures("live_removes_exactly_the_markets_closed_for_more_than_an_hour", implies(old(known(self, event.event["id"])) and not self.clients.simulated,
            self.g_w.g_removed == old(self.g_w.g_removed) + (1 if old(registered(self, self.g_w)) and closes(self.g_w) else 0)))
    ensures("simulation_removes_the_closed_market_only", implies(old(known(self, event.event["id"])) and self.clients.simulated,
            self.g_w.g_removed == old(self.g_w.g_removed) + (1 if self.g_w == old(M_of(self, event.event["id"])) else 0)))
    ensures("simulation_keeps_the_registry", implies(self.clients.simulated, forall_atom(lambda k: (k in self.markets._markets) == old(k in self.markets._markets)
            and implies(old(k in self.markets._markets), self.markets._markets[k] == old(self.markets._markets[k])))))

@contract("flumine/baseflumine.py::BaseFlumine._process_close_market#recorder_live", tags=["C20-wip"],
          callee_variants={"flumine/baseflumine.py::BaseFlumine.log_control": "c20"})
def _(self, event: Ref("ClosedDatumEvent")):
    requires("live_instance", not self.clients.simulated)
    requires("closing_datum_carries_id_and_stream", "id" in event.event and "_stream_id" in event.event)  # its only producer, _process_raw_data, queues it under `"id" in datum` after storing "_stream_id"
    requires("arbitrary_strategy", arbitrary_strategy(self))
    requires("registered_once", strategies_distinct(self) and middleware_distinct(self))
    requires("registry_keys_are_market_ids", keys_are_ids(self))
    requires("clock_after_the_epoch", config.current_time > 0 and (self.g_w.date_time_closed is None or self.g_w.date_time_closed > 0))
    modifies_all("Market.closed")
    modifies_all("Market.date_time_closed")
    modifies_all("Market.g_removed")
    modifies_all("BaseStrategy.g_closed")
    modifies_all("BaseStrategy.g_closed_market")
    modifies_all("BaseStrategy.g_closed_arg")
    modifies_all("BaseStrategy.g_rm")
    modifies_all("BaseStrategy.g_rm_id")
    modifies_all("Middleware.gm_rm")
    modifies_all("Middleware.gm_rm_market")
    modifies(self, "g_close_logged")
    modifies(self, "g_close_logged_event")
    modifies_maps_of(MapOf(Tup(ATOM, INT, REAL), Ref("RunnerContext")))
    modifies_map(self.markets._markets)
    modifies_lists_of(Ref("Market"))
    local(closed_markets=ListOf(Ref("Market")), cleared_markets=Ref("ClearedOrders"))
    invariant(0, "market_closed_before_any_callback", market.closed and market == old(M_of(self, event.event["id"])))
    invariant(0, "closed_callback_once_so_far", SK(self).g_closed == old(SK(self).g_closed)
              + (1 if self.g_k < _i0 and wants_closed(SK(self), event.event["_stream_id"]) else 0))
    invariant(0, "closed_callback_arguments", implies(self.g_k < _i0 and wants_closed(SK(self), event.event["_stream_id"]),
                                                     SK(self).g_closed_market == market and SK(self).g_closed_arg == event.event))
    invariant(2, "snapshot_distinct", forall_int(lambda a, b: implies(0 <= a and a < b and b < len(_seq2), _seq2[a] != _seq2[b])))
    invariant(2, "snapshot_members_have_been_closed_for_an_hour", forall(lambda j: closes(_seq2[j]), 0, len(_seq2)))
    invariant(2, "rest_still_registered", forall(lambda j: registered(self, _seq2[j]), _i2, len(_seq2)))
    invariant(2, "every_expired_registered_market_is_in_the_snapshot", implies(old(registered(self, self.g_w)) and closes(self.g_w), exists(lambda j: _seq2[j] == self.g_w, 0, len(_seq2))))
    invariant(2, "snapshot_members_were_registered", forall(lambda j: old(registered(self, _seq2[j])), 0, len(_seq2)))
    invariant(2, "removed_once_so_far", self.g_w.g_removed == old(self.g_w.g_removed) + (1 if exists(lambda j: _seq2[j] == self.g_w, 0, _i2) else 0))
    ensures("unknown_market_no_effect", implies(old(not known(self, event.event["id"])),
                                                SK(self).g_closed == old(SK(self).g_closed) and self.g_close_logged == old(self.g_close_logged)
                                                and self.g_w.g_removed == old(self.g_w.g_removed) and self.g_w.closed == old(self.g_w.closed)))
    ensures("market_is_closed", implies(old(known(self, event.event["id"])), old(M_of(self, event.event["id"])).closed))
    ensures("close_market_called_iff_it_was_open", implies(old(known(self, event.event["id"])),
            old(M_of(self, event.event["id"])).date_time_closed == (config.current_time if old(not M_of(self, event.event["id"]).closed) else old(M_of(self, event.event["id"]).date_time_closed))))
    ensures("closed_callback_exactly_once_iff_subscribed_or_empty_filter", implies(old(known(self, event.event["id"])),
            SK(self).g_closed == old(SK(self).g_closed) + (1 if wants_closed(SK(self), event.event["_stream_id"]) else 0)))
    ensures("closed_callback_gets_the_market_and_the_closing_datum", implies(old(known(self, event.event["id"])) and wants_closed(SK(self), event.event["_stream_id"]),
            SK(self).g_closed_market == old(M_of(self, event.event["id"])) and SK(self).g_closed_arg == event.event))
    ensures("close_event_logged_once", implies(old(known(self, event.event["id"])), self.g_close_logged == old(self.g_close_logged) + 1 and self.g_close_logged_event == event))
    ensures("live_removes_exactly_the_markets_closed_for_more_than_an_hour", implies(old(known(self, event.event["id"])) and not self.clients.simulated,
            self.g_w.g_removed == old(self.g_w.g_removed) + (1 if old(registered(self, self.g_w)) and closes(self.g_w) else 0)))
    ensures("simulation_removes_the_closed_market_only", implies(old(known(self, event.event["id"])) and self.clients.simulated,
            self.g_w.g_removed == old(self.g_w.g_removed) + (1 if self.g_w == old(M_of(self, event.event["id"])) else 0)))
    ensures("simulation_keeps_the_registry", implies(self.clients.simulated, forall_atom(lambda k: (k in self.markets._markets) == old(k in self.markets._markets)
            and implies(old(k in self.markets._markets), self.markets._markets[k] == old(self.markets._markets[k])))))


# ----------------------------------------------------------------------------- re-opening, middleware state
@contract("flumine/markets/market.py::Market.open_market#c20", tags=["C20"])
def _(self):
    modifies(self, "closed")
    modifies(self, "orders_cleared")
    modifies(self, "market_cleared")
    ensures("reopened_with_cleared_flags_reset", not self.closed and len(self.orders_cleared) == 0 and len(self.market_cleared) == 0)


@contract("flumine/markets/markets.py::Markets.add_market#c20", tags=["C20"],
          callee_variants={"flumine/markets/market.py::Market.open_market": "c20"})
def _(self, market_id: ATOM, market: Ref("Market")):
    modifies_map(self._markets)
    modifies_map(self.events)
    modifies_lists_of(Ref("Market"))
    modifies_all("Market.closed")
    modifies_all("Market.orders_cleared")
    modifies_all("Market.market_cleared")
    ensures("known_id_is_reopened_with_cleared_flags_reset_not_replaced", implies(old(market_id in self._markets),
            self._markets[market_id] == old(self._markets[market_id]) and not self._markets[market_id].closed
            and len(self._markets[market_id].orders_cleared) == 0 and len(self._markets[market_id].market_cleared) == 0))
    ensures("new_id_maps_to_the_market", implies(old(market_id not in self._markets), market_id in self._markets and self._markets[market_id] == market))


schema("SimulatedMiddleware", markets=MapOf(ATOM, Ref("Object")))


@contract("flumine/markets/middleware.py::SimulatedMiddleware.remove_market", tags=["C20"])
def _(self, market: Ref("Market")):
    modifies_map(self.markets)
    ensures("market_state_released", market.market_id not in self.markets)
    ensures("other_markets_kept", forall_atom(lambda k: implies(k != market.market_id, (k in self.markets) == old(k in self.markets))))
