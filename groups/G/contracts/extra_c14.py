"""C14 - nondeterminism-source scan (extra property-level check, run by pyvc.driver.run_extra_checks for ./check C14).

Determinism across processes / hash seeds / wall-clock offsets = every function on the simulation path is a function of
(its inputs, config.current_time) [the contracts] AND no other input exists [this scan].  The scan walks the AST of every module
of the package (the import closure of flumine/simulation/simulation.py is the whole package but six empty __init__ files)
and reports every syntactic occurrence of

  wall-clock   time.time / monotonic / perf_counter / time_ns,  <x>.utcnow() / .now() / .today()  where <x> is NOT the module
               attribute  datetime.datetime  looked up at call time (the only form the simulation's re-binding of
               datetime.datetime reaches): in particular a class bound by `from datetime import datetime` keeps the REAL class
  random       random.*, secrets.*, os.urandom, uuid.uuid1 / uuid4 / uuid3 / uuid5
  identity     builtin id(..), hash(..)
  set-order    iteration (for / comprehension / sum / list / tuple / join) over a set(..) call, set literal or set comprehension
  threads      threading.Thread, ThreadPoolExecutor, <pool>.submit

Each occurrence is one obligation: it is discharged iff it is in the REVIEWED allow-list below with the reason why it cannot
reach the simulated ledger (orders, fills, statuses, profit).  An occurrence that is not listed is a VIOLATION (a new source of
nondeterminism has appeared, or a listed one moved: re-review).  The allow-list is keyed by (file, enclosing function, kind,
normalised source text) - line numbers are not part of the key, so harmless edits elsewhere in a file do not fire.
"""
import ast
import os

WALL = {"time", "monotonic", "perf_counter", "time_ns", "monotonic_ns", "perf_counter_ns", "process_time"}
NOWS = {"utcnow", "now", "today", "fromtimestamp_now"}
RANDOM_MODS = {"random", "secrets"}
UUID_FUNCS = {"uuid1", "uuid3", "uuid4", "uuid5"}

# (file, function, kind, text) -> reason
ALLOW = {
    ("flumine/baseflumine.py", "BaseFlumine._process_market_books", "wall-clock", "time.time()"):
        "live framework only: FlumineSimulation overrides _process_market_books (contract in c13_simulation.py); the value only feeds a latency warning log",
    ("flumine/streams/orderstream.py", "OrderStream.handle_output", "wall-clock", "time.time()"):
        "output thread of the LIVE order stream; FlumineSimulation.run never starts stream threads (historical streams are consumed as generators)",
    ("flumine/execution/baseexecution.py", "BaseExecution._get_http_session", "wall-clock", "time.time()"):
        "requests.Session pool of the LIVE executions; the simulated handler calls execute_* with http_session=None and never asks for a session",
    ("flumine/execution/baseexecution.py", "BaseExecution._create_new_session", "wall-clock", "time.time()"):
        "see _get_http_session (live session pool)",
    ("flumine/execution/baseexecution.py", "BaseExecution._return_http_session", "wall-clock", "time.time()"):
        "see _get_http_session (live session pool)",
    ("flumine/order/orderpackage.py", "BaseOrderPackage.__init__", "random", "uuid.uuid4()"):
        "package id: used as customer_ref of live API calls and in log extras; never ordered, compared or used as a key of an iterated container in the simulation",
    ("flumine/order/trade.py", "Trade.__init__", "random", "uuid.uuid4()"):
        "trade id: element of RunnerContext.trades / live_trades (lists searched by equality) and key of Blotter._trade_lookup (dict lookups only); never sorted, never iterated in an order that reaches the ledger",
    ("flumine/order/order.py", "BaseOrder.__init__", "random", "uuid.uuid1()"):
        "order id (customer order ref): key of Blotter._orders, an insertion-ordered dict iterated in insertion order; ids are never sorted or compared for order (C19 covers uniqueness / format)",
    ("flumine/utils.py", "create_short_uuid", "random", "uuid.uuid4()"):
        "default client username when none is given: a label in logs / cleared-market records, not part of orders, fills, statuses or profit",
    ("flumine/markets/blotter.py", "Blotter.market_exposure", "set-order",
     "[ self.get_exposures( strategy, lookup, exclusion=exclusion, new_order=( new_order if new_order is not None and new_order.lookup == lookup else None ), ) for lookup in runners ]"):
        "the per-runner exposures are listed in the iteration order of a set of (market id, selection id, handicap) tuples; the list only feeds sum() and max() "
        "(order-insensitive in real arithmetic, A1) - the dependence of FLOAT summation order on PYTHONHASHSEED (str hashing of the market id) is NOT decided here: "
        "DESIGN section 6, bounded double-run only",
    ("flumine/utils.py", "get_event_ids", "set-order", "list(set(event_ids))"):
        "helper that is not called anywhere in the package (for user-written polling workers, live)",
    ("flumine/execution/baseexecution.py", "BaseExecution.__init__", "threads", "ThreadPoolExecutor(max_workers=self._max_workers)"):
        "the pool object is created for every execution but SimulatedExecution.handler only submits to it when client.paper_trade (live paper trading), never in FlumineSimulation",
    ("flumine/execution/baseexecution.py", "BaseExecution.handler", "threads", "self._thread_pool.submit(func, order_package, http_session)"):
        "live executions only: SimulatedExecution overrides handler",
    ("flumine/execution/simulatedexecution.py", "SimulatedExecution.handler", "threads", "self._thread_pool.submit(func, order_package, None)"):
        "guarded by order_package.client.paper_trade: paper trading on live data, not FlumineSimulation",
    ("flumine/worker.py", "BackgroundWorker.__init__", "threads", "threading.Thread.__init__(self, daemon=True, name=name, **kwargs)"):
        "background workers are started by Flumine.run (live); FlumineSimulation.run never starts them",
    ("flumine/streams/basestream.py", "BaseStream.__init__", "threads", "threading.Thread.__init__(self, daemon=True, name=self.__class__.__name__)"):
        "stream objects are Thread subclasses, but FlumineSimulation.run never calls start() on them: it pulls stream.create_generator()",
    ("flumine/streams/basestream.py", "BaseStream.__init__", "threads", 'threading.Thread( name="{0}_output_thread".format(self.name), target=self.handle_output, daemon=True, )'):
        "the output thread object is created but only started by the live stream's run()",
}


def _text(src, node):
    seg = ast.get_source_segment(src, node) or ""
    return " ".join(seg.split())


class _Scan(ast.NodeVisitor):
    def __init__(self, rel, src, tree):
        self.rel = rel
        self.src = src
        self.stack = []
        self.hits = []
        # how is the name `datetime` bound in this module?
        self.dt_class_names = set()  # names bound to the datetime CLASS at import time (from datetime import datetime [as x])
        self.dt_mod_names = set()  # names bound to the datetime MODULE
        self.time_names = set()
        self.time_funcs = {}
        self.uuid_mod = set()
        self.uuid_funcs = {}
        self.random_mod = set()
        for n in ast.walk(tree):
            if isinstance(n, ast.Import):
                for a in n.names:
                    nm = a.asname or a.name.split(".")[0]
                    if a.name == "datetime":
                        self.dt_mod_names.add(nm)
                    if a.name == "time":
                        self.time_names.add(nm)
                    if a.name == "uuid":
                        self.uuid_mod.add(nm)
                    if a.name in RANDOM_MODS:
                        self.random_mod.add(nm)
            elif isinstance(n, ast.ImportFrom) and n.level == 0:
                for a in n.names:
                    nm = a.asname or a.name
                    if n.module == "datetime" and a.name in ("datetime", "date"):
                        self.dt_class_names.add(nm)
                    if n.module == "time" and a.name in WALL:
                        self.time_funcs[nm] = a.name
                    if n.module == "uuid" and a.name in UUID_FUNCS:
                        self.uuid_funcs[nm] = a.name
                    if n.module in RANDOM_MODS:
                        self.random_mod.add("<from %s>" % n.module)
                        self.time_funcs.setdefault(nm, None)

    def where(self):
        return ".".join(self.stack) if self.stack else "<module>"

    def hit(self, kind, node):
        self.hits.append((self.rel, self.where(), kind, _text(self.src, node), getattr(node, "lineno", 0)))

    def visit_ClassDef(self, node):
        self.stack.append(node.name)
        self.generic_visit(node)
        self.stack.pop()

    def visit_FunctionDef(self, node):
        self.stack.append(node.name)
        self.generic_visit(node)
        self.stack.pop()

    visit_AsyncFunctionDef = visit_FunctionDef

    @staticmethod
    def is_set_expr(e):
        return isinstance(e, (ast.Set, ast.SetComp)) or (isinstance(e, ast.Call) and isinstance(e.func, ast.Name) and e.func.id in ("set", "frozenset"))

    def set_names(self, fn):
        out = set()
        for n in ast.walk(fn):
            if isinstance(n, ast.Assign) and self.is_set_expr(n.value):
                for t in n.targets:
                    if isinstance(t, ast.Name):
                        out.add(t.id)
        return out

    def iter_is_set(self, it, setnames):
        return self.is_set_expr(it) or (isinstance(it, ast.Name) and it.id in setnames)

    def visit_Call(self, node):
        f = node.func
        # wall clock ---------------------------------------------------------------------------------------------------
        if isinstance(f, ast.Attribute) and isinstance(f.value, ast.Name) and f.value.id in self.time_names and f.attr in WALL:
            self.hit("wall-clock", node)
        elif isinstance(f, ast.Name) and f.id in self.time_funcs and self.time_funcs[f.id] in WALL:
            self.hit("wall-clock", node)
        elif isinstance(f, ast.Attribute) and f.attr in NOWS:
            recv = f.value
            patched = (isinstance(recv, ast.Attribute) and recv.attr == "datetime" and isinstance(recv.value, ast.Name) and recv.value.id in self.dt_mod_names)
            if patched:
                pass  # datetime.datetime.utcnow(): the module attribute is looked up at call time -> NewDateTime during a simulation
            elif isinstance(recv, ast.Name) and recv.id in self.dt_class_names:
                self.hit("wall-clock", node)  # class captured at import time: the simulation's patch does not reach it
            elif isinstance(recv, ast.Attribute) and recv.attr in ("date", "datetime") and isinstance(recv.value, ast.Name) and recv.value.id in self.dt_mod_names:
                self.hit("wall-clock", node)  # datetime.date.today() etc.
            elif isinstance(recv, ast.Attribute) and recv.attr == "_real_datetime":
                pass  # SimulatedDateTime's own saved class: under contract in c14_clock.py (reset_real_datetime / real_time)
        # randomness ---------------------------------------------------------------------------------------------------
        if isinstance(f, ast.Attribute) and isinstance(f.value, ast.Name):
            if f.value.id in self.uuid_mod and f.attr in UUID_FUNCS:
                self.hit("random", node)
            if f.value.id in self.random_mod:
                self.hit("random", node)
            if f.value.id == "os" and f.attr == "urandom":
                self.hit("random", node)
        if isinstance(f, ast.Name) and f.id in self.uuid_funcs:
            self.hit("random", node)
        # identity / hash ----------------------------------------------------------------------------------------------
        if isinstance(f, ast.Name) and f.id in ("id", "hash") and len(node.args) == 1:
            self.hit("identity", node)
        # threads ------------------------------------------------------------------------------------------------------
        if isinstance(f, ast.Name) and f.id in ("ThreadPoolExecutor", "ProcessPoolExecutor", "Thread"):
            self.hit("threads", node)
        if isinstance(f, ast.Attribute) and f.attr in ("ThreadPoolExecutor", "Thread") and not (isinstance(f.value, ast.Attribute)):
            self.hit("threads", node)
        if isinstance(f, ast.Attribute) and f.attr == "__init__" and isinstance(f.value, ast.Attribute) and f.value.attr == "Thread":
            self.hit("threads", node)
        if isinstance(f, ast.Attribute) and f.attr == "submit":
            self.hit("threads", node)
        # order-sensitive consumers of a set ---------------------------------------------------------------------------
        if isinstance(f, ast.Name) and f.id in ("sum", "list", "tuple", "max", "min", "next", "iter", "enumerate", "zip") and node.args:
            a0 = node.args[0]
            if self.is_set_expr(a0) and f.id not in ("max", "min"):
                self.hit("set-order", node)
            if isinstance(a0, (ast.GeneratorExp, ast.ListComp)) and any(self.iter_is_set(g.iter, self._setnames) for g in a0.generators) and f.id not in ("max", "min"):
                self.hit("set-order", node)
        if isinstance(f, ast.Attribute) and f.attr == "join" and node.args and (self.is_set_expr(node.args[0])):
            self.hit("set-order", node)
        self.generic_visit(node)

    _setnames = frozenset()

    def visit_For(self, node):
        if self.iter_is_set(node.iter, self._setnames):
            self.hit("set-order", node.iter)
        self.generic_visit(node)

    def _comp(self, node):
        for g in node.generators:
            if self.iter_is_set(g.iter, self._setnames):
                self.hit("set-order", node)
        self.generic_visit(node)

    visit_ListComp = _comp
    visit_GeneratorExp = _comp
    visit_DictComp = _comp

    def scan_function_sets(self, tree):
        # names assigned from set expressions, per function (simple flow-insensitive approximation)
        names = set()
        for fn in ast.walk(tree):
            if isinstance(fn, (ast.FunctionDef, ast.AsyncFunctionDef)):
                names |= self.set_names(fn)
        self._setnames = frozenset(names)


def scan(repo_root):
    hits = []
    pkg = os.path.join(repo_root, "flumine")
    for dp, dn, fn in os.walk(pkg):
        for f in sorted(fn):
            if not f.endswith(".py"):
                continue
            path = os.path.join(dp, f)
            rel = os.path.relpath(path, repo_root)
            src = open(path).read()
            tree = ast.parse(src)
            s = _Scan(rel, src, tree)
            s.scan_function_sets(tree)
            s.visit(tree)
            hits += s.hits
    return hits


def run(repo=None, spec=None, ground=None, repo_root="/repo"):
    hits = scan(repo_root)
    out = dict(obligations=0, discharged=0, violations=[], samples=[], assumptions=[], ground=[])
    seen = set()
    for rel, where, kind, text, line in sorted(hits):
        key = (rel, where, kind, text)
        name = "C14/nondeterminism-scan/%s:%s:%s" % (rel, where, kind)
        out["obligations"] += 1
        if key in ALLOW:
            out["discharged"] += 1
            seen.add(key)
            if len(out["samples"]) < 3:
                out["samples"].append(dict(obligation=name, verdict="allow-listed", reason=ALLOW[key], text=text, line=line))
        else:
            out["violations"].append(dict(
                obligation=name + "@%d" % line, kind="nondeterminism-source", function="%s::%s" % (rel, where), line=line,
                violated_clause="no source of nondeterminism outside the reviewed allow-list (contracts/extra_c14.py)",
                source_text=text, native=dict(confirmed=False, note="syntactic scan: an un-reviewed %s source" % kind)))
    # an allow-list entry that no longer matches anything is reported (stale review), not failed
    stale = [k for k in ALLOW if k not in seen]
    out["ground"].append(dict(check="nondeterminism-source scan", modules=len(set(h[0] for h in hits)), hits=len(hits), allow_listed=out["discharged"],
                              stale_allow_list_entries=[" | ".join(k) for k in stale]))
    out["assumptions"] += [
        "C14 scan: syntactic, per module of the package; aliasing of the scanned names (e.g. t = time.time; t()) is not followed",
        "C14 scan: betfairlightweight / third-party code is not scanned (A7)",
        "C14 scan: iteration over dicts is insertion ordered (python >= 3.7) and therefore not a hit; only set iteration is",
        "A1: float summation order over a set (Blotter.market_exposure) is not decided (DESIGN section 6)",
    ]
    return out
