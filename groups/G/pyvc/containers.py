"""dict objects on the heap (MapOf).

A dict object d (an Int reference) has, per (key sort, value sort):
  dom  : K -> Bool        membership
  val  : K -> V           value (meaningful where dom holds)
  keys : ref of a heap List[K] giving the insertion order (python dicts are insertion ordered)
Well-formedness assumed of every dict of the pre-state and re-established by the operations here:
  the keys list has no duplicates and holds exactly the members of dom.
defaultdict(list): declared as MapOf(K, ListOf(T)) with .default = True in the schema (MapOfDefault).
"""
import z3

from .values import *  # noqa
from . import builtins_model as bm


def _E():
    from . import engine as E

    return E


class MapOfDefault(MapOf):
    """defaultdict(list)"""

    def __init__(self, key, val):
        MapOf.__init__(self, key, val)
        self.default = True


def ksorts(ms):
    return z3sorts(ms.key)


def _hkey(ms, what, i=0):
    return ("$Map", ms.key.name, ms.val.name, what, i)


def _arr(eng, ms, what, i, rng, heap=None):
    heap = eng.path.heap if heap is None else heap
    k = _hkey(ms, what, i)
    if k not in heap:
        heap[k] = z3.Array("H0_Map_%s_%s_%s_%d" % (ms.key.name, ms.val.name, what, i), z3.IntSort(), rng)
    return heap[k]


def dom_arr(eng, mv):
    ms = mv.sort
    rng = z3.ArraySort(*(ksorts(ms) + [z3.BoolSort()]))
    return z3.Select(_arr(eng, ms, "dom", 0, rng), zr(mv.t))


def val_arrs(eng, mv):
    ms = mv.sort
    out = []
    for i, zs in enumerate(z3sorts(ms.val)):
        rng = z3.ArraySort(*(ksorts(ms) + [zs]))
        out.append(z3.Select(_arr(eng, ms, "val", i, rng), zr(mv.t)))
    return out


def keys_ref(eng, mv):
    ms = mv.sort
    r = z3.Select(_arr(eng, ms, "keys", 0, z3.IntSort()), zr(mv.t))
    if eng.path is not None and not has_bvar(r):
        from .engine import IS_KEYS

        eng.path.assume(IS_KEYS(r), check=False)
    return SV(ListOf(ms.key), r)


def _set(eng, mv, what, i, value):
    ms = mv.sort
    k = _hkey(ms, what, i)
    eng.path.heap[k] = z3.Store(eng.path.heap[k], zr(mv.t), value)


def kterms(eng, ms, key):
    v = bm.coerce(eng, key, ms.key)
    return flatten(normalise_none(v, ms.key), ms.key)


def normalise_none(v, sort):
    """dict keys: an optional value that IS None has one canonical representation (payload = default terms), so that every None
    key denotes the same entry whatever symbolic payload the optional value carries"""
    if isinstance(sort, Opt) and isinstance(v, SV) and isinstance(v.sort, Opt):
        isn, inner = v.t
        if isinstance(isn, bool):
            return v
        comps = flatten(inner, sort.inner)
        norm = [z3.If(zb(isn), default_term(c.sort()), c) for c in comps]
        return SV(sort, (isn, unflatten(sort.inner, norm)))
    if isinstance(sort, Tup) and isinstance(v, SV) and isinstance(v.sort, Tup):
        return SV(sort, tuple(normalise_none(x, s) for x, s in zip(v.t, sort.items)))
    return v


def map_wf(eng, mv):
    """well-formedness facts of a dict (assumed for dicts read from the heap)"""
    ms = mv.sort
    kl = keys_ref(eng, mv)
    n = eng.list_len(kl.t, ms.key)
    d = dom_arr(eng, mv)
    i = bvar("wi")
    j = bvar("wj")
    ki = flatten(eng.list_get(kl.t, ms.key, i, heap=eng.path.heap), ms.key)
    kj = flatten(eng.list_get(kl.t, ms.key, j, heap=eng.path.heap), ms.key)
    same = z3.And(*[a == b for a, b in zip(ki, kj)])
    kv = [bvar("wk", s) for s in ksorts(ms)]
    pos = z3.Function(fresh_name("kpos"), *(ksorts(ms) + [z3.IntSort()]))
    kp = flatten(eng.list_get(kl.t, ms.key, pos(*kv), heap=eng.path.heap), ms.key)
    return z3.And(
        n >= 0,
        z3.ForAll([i], z3.Implies(z3.And(0 <= i, i < n), z3.Select(d, *ki))),
        z3.ForAll([i, j], z3.Implies(z3.And(0 <= i, i < j, j < n), z3.Not(same))),
        z3.ForAll(kv, z3.Implies(z3.Select(d, *kv), z3.And(0 <= pos(*kv), pos(*kv) < n, *[a == b for a, b in zip(kp, kv)]))),
    )


def assume_wf_once(eng, mv):
    p = eng.path
    done = p.ghost.setdefault("map_wf", set())
    key = (mv.sort.name, zr(mv.t).get_id(), id(p.heap.get(_hkey(mv.sort, "dom", 0))), id(p.heap.get(_hkey(mv.sort, "keys", 0))))
    if key in done:
        return
    done.add(key)
    p.assume(map_wf(eng, mv), check=False)


def map_size(eng, mv):
    if eng.path is not None and not has_bvar(zr(mv.t)):
        assume_wf_once(eng, mv)
    kl = keys_ref(eng, mv)
    return eng.list_len(kl.t, mv.sort.key)


def map_new(eng, sort, items=()):
    r = eng.new_ref()
    mv = SV(sort, r)
    ms = sort
    ks = ksorts(ms)
    # touch arrays
    dom_arr(eng, mv)
    val_arrs(eng, mv)
    kl0 = keys_ref(eng, mv)
    empty = z3.K(ks[0], z3.BoolVal(False)) if len(ks) == 1 else z3.Lambda([bvar("mk", s) for s in ks], z3.BoolVal(False))
    _set(eng, mv, "dom", 0, empty)
    kl = eng.list_new(ms.key, [], keys=True)
    _set(eng, mv, "keys", 0, zr(kl.t))
    for k, v in items:
        map_setitem(eng, mv, k, v, None)
    return mv


def map_contains(eng, mv, key):
    if isinstance(key, SV) and isinstance(key.sort, Opt):
        # None is never a key of the maps modelled here unless the key sort is optional
        if not isinstance(mv.sort.key, Opt):
            isn, inner = key.t
            return bm.and_(bm.not_(isn), z3.Select(dom_arr(eng, mv), *kterms(eng, mv.sort, inner)))
    if isinstance(key, SV) and key.sort == NONE and not isinstance(mv.sort.key, Opt):
        return False
    return z3.Select(dom_arr(eng, mv), *kterms(eng, mv.sort, key))


def map_value(eng, mv, kt):
    comps = [z3.Select(a, *kt) for a in val_arrs(eng, mv)]
    v = unflatten(mv.sort.val, comps)
    eng.wf_assume(v)
    return v


def map_getitem(eng, mv, key, line):
    E = _E()
    ms = mv.sort
    kt = kterms(eng, ms, key)
    if eng.spec_mode:
        return map_value(eng, mv, kt)
    present = z3.Select(dom_arr(eng, mv), *kt)
    if eng.branch(present, "haskey"):
        return map_value(eng, mv, kt)
    if getattr(ms, "default", False):
        v = eng.list_new(ms.val.elem, [])
        map_insert(eng, mv, kt, v)
        return v
    raise E.PyRaise("KeyError", None, line)


def map_insert(eng, mv, kt, value):
    """insert a key known to be absent"""
    ms = mv.sort
    d = dom_arr(eng, mv)
    _set(eng, mv, "dom", 0, z3.Store(d, *(kt + [z3.BoolVal(True)])))
    comps = flatten(bm.coerce(eng, value, ms.val), ms.val)
    for i, (a, c) in enumerate(zip(val_arrs(eng, mv), comps)):
        _set(eng, mv, "val", i, z3.Store(a, *(kt + [c])))
    kl = keys_ref(eng, mv)
    eng.list_append(kl, unflatten(ms.key, kt))


def map_setitem(eng, mv, key, value, line):
    ms = mv.sort
    kt = kterms(eng, ms, key)
    present = z3.Select(dom_arr(eng, mv), *kt)
    if eng.branch(present, "setkey"):
        comps = flatten(bm.coerce(eng, value, ms.val), ms.val)
        for i, (a, c) in enumerate(zip(val_arrs(eng, mv), comps)):
            _set(eng, mv, "val", i, z3.Store(a, *(kt + [c])))
        return
    map_insert(eng, mv, kt, value)


def map_delitem(eng, mv, key, line):
    E = _E()
    ms = mv.sort
    kt = kterms(eng, ms, key)
    present = z3.Select(dom_arr(eng, mv), *kt)
    if not eng.branch(present, "delkey"):
        raise E.PyRaise("KeyError", None, line)
    assume_wf_once(eng, mv)
    d = dom_arr(eng, mv)
    kl = keys_ref(eng, mv)
    from . import builtins3 as b3

    b3.list_remove(eng, kl, unflatten(ms.key, kt), line)
    _set(eng, mv, "dom", 0, z3.Store(d, *(kt + [z3.BoolVal(False)])))


def map_havoc(eng, mv, prefix):
    ms = mv.sort
    ks = ksorts(ms)
    dom_arr(eng, mv)
    val_arrs(eng, mv)
    keys_ref(eng, mv)
    _set(eng, mv, "dom", 0, z3.Const(fresh_name(prefix + "_dom"), z3.ArraySort(*(ks + [z3.BoolSort()]))))
    for i, zs in enumerate(z3sorts(ms.val)):
        _set(eng, mv, "val", i, z3.Const(fresh_name(prefix + "_val"), z3.ArraySort(*(ks + [zs]))))
    kl = eng.list_new(ms.key, [], keys=True)
    n = z3.Int(fresh_name(prefix + "_n"))
    arrs = [z3.Const(fresh_name(prefix + "_keys"), z3.ArraySort(z3.IntSort(), zs)) for zs in ks]
    eng.list_set_all(kl.t, ms.key, n, arrs)
    _set(eng, mv, "keys", 0, zr(kl.t))
    eng.path.ghost.setdefault("map_wf", set())
    # the full well-formedness facts (three quantified formulas linking the key-order list to the membership predicate) are
    # assumed on demand - by len(), iteration, deletion (assume_wf_once) - so that paths which never look at the key order do
    # not carry them (the solver cannot produce counter-models in their presence)
    eng.path.assume(n >= 0, check=False)


def maps_havoc_all(eng, prefix):
    for k in list(eng.path.heap):
        if k[0] == "$Map":
            arr = eng.path.heap[k]
            eng.path.heap[k] = z3.Const(fresh_name(prefix + "_map"), arr.sort())


def maps_havoc_sort(eng, ms, prefix):
    """every dict of one (key, value) sort may have changed (loop write set of a callee with modifies_map on such a dict)"""
    probe = SV(ms, z3.IntVal(0))
    dom_arr(eng, probe)
    val_arrs(eng, probe)
    keys_ref(eng, probe)
    for k in list(eng.path.heap):
        if k[0] == "$Map" and k[1] == ms.key.name and k[2] == ms.val.name:
            arr = eng.path.heap[k]
            eng.path.heap[k] = z3.Const(fresh_name(prefix + "_map"), arr.sort())
    # the "keys" pointer of every such dict is havoced with the other $Map arrays above: the new key-order list of a dict is SOME list
    # reference (its contents unconstrained until well-formedness is assumed on demand); the $List heaps themselves are not touched,
    # so program lists keep their contents


def map_method(eng, mv, name, args, kwargs, line):
    E = _E()
    ms = mv.sort
    if name == "get":
        kt = kterms(eng, ms, args[0])
        present = z3.Select(dom_arr(eng, mv), *kt)
        if eng.spec_mode:
            dflt = args[1] if len(args) > 1 else NONE_V
            return bm.ite(eng, present, map_value(eng, mv, kt), dflt)
        if eng.branch(present, "get"):
            return map_value(eng, mv, kt)
        return args[1] if len(args) > 1 else NONE_V
    if name in ("items", "keys", "values"):
        return PyVal("mapview", of=mv, what=name)
    if name == "copy":
        r = eng.new_ref()
        nv = SV(ms, r)
        d = dom_arr(eng, mv)
        vs = val_arrs(eng, mv)
        kl = keys_ref(eng, mv)
        dom_arr(eng, nv)
        val_arrs(eng, nv)
        keys_ref(eng, nv)
        _set(eng, nv, "dom", 0, d)
        for i, a in enumerate(vs):
            _set(eng, nv, "val", i, a)
        from . import builtins3 as b3

        _set(eng, nv, "keys", 0, zr(b3.list_copy(eng, kl).t))
        return nv
    if name == "clear":
        ks = ksorts(ms)
        dom_arr(eng, mv)
        empty = z3.K(ks[0], z3.BoolVal(False)) if len(ks) == 1 else z3.Lambda([bvar("mk", s) for s in ks], z3.BoolVal(False))
        _set(eng, mv, "dom", 0, empty)
        keys_ref(eng, mv)
        _set(eng, mv, "keys", 0, zr(eng.list_new(ms.key, [], keys=True).t))
        return NONE_V
    if name == "pop":
        kt = kterms(eng, ms, args[0])
        present = z3.Select(dom_arr(eng, mv), *kt)
        if eng.branch(present, "pop"):
            v = map_value(eng, mv, kt)
            map_delitem(eng, mv, args[0], line)
            return v
        if len(args) > 1:
            return args[1]
        raise E.PyRaise("KeyError", None, line)
    raise EngineLimit("dict method %s" % name)


class MapViewSource:
    """iteration over d.items() / d.keys() / d.values() / d in insertion order"""

    def __init__(self, eng, view):
        self.eng = eng
        self.mv = view.of
        self.what = view.what
        assume_wf_once(eng, self.mv)
        self.kl = keys_ref(eng, self.mv)
        self.ks = self.mv.sort.key
        self.n0 = eng.list_len(self.kl.t, self.ks)
        self.items0 = eng.list_items(self.kl.t, self.ks)

    def length(self):
        return self.n0

    def key_at(self, i):
        return unflatten(self.ks, [z3.Select(a, i) for a in self.items0])

    def element(self, i):
        k = self.key_at(i)
        self.eng.wf_assume(k)
        if self.what == "keys":
            return k
        v = map_value(self.eng, self.mv, flatten(k, self.ks))
        if self.what == "values":
            return v
        return bm.make_tuple([k, v])

    def protect(self, ws):
        pass

    def check_unchanged(self, n, line):
        eng = self.eng
        cur = eng.list_len(keys_ref(eng, self.mv).t, self.ks)
        eng.oblige("%s/dict-not-resized-during-iteration@%d" % (eng.cur_short, line), cur == self.n0, "safety", line)


def view_to_list(eng, view):
    mv = view.of
    ms = mv.sort
    assume_wf_once(eng, mv)
    kl = keys_ref(eng, mv)
    from . import builtins3 as b3

    if view.what == "keys":
        return b3.list_copy(eng, kl)
    n = eng.list_len(kl.t, ms.key)
    i = bvar("vl")
    kt = flatten(eng.list_get(kl.t, ms.key, i), ms.key)
    if view.what == "values":
        arrs = [z3.Lambda([i], z3.Select(a, *kt)) for a in val_arrs(eng, mv)]
        r = eng.new_ref()
        eng.list_set_all(r, ms.val, n, arrs)
        return SV(ListOf(ms.val), r)
    raise EngineLimit("list(d.items())")


def map_comprehension(eng, node, g, view, fr, kind):
    # [f(k, v) for k, v in d.items()] : go through the list of keys
    raise EngineLimit("comprehension over a dict view")


def dict_comprehension(eng, node, fr):
    """{k: v for k, v in d.items() if c(k, v)}  - a FILTERED COPY of a heap dict d, with a pure filter c.

    Result: a fresh dict object m (a new reference, so the assignment of m to an attribute is a write of that attribute) with
      dom(m)  = lambda key: dom(d)(key) and c(key, d[key])        (exact, no quantifier)
      val(m)  = val(d)                                            (values are only meaningful inside dom)
      keys(m) = some list of length 0 <= n' <= len(d); its well-formedness against dom(m) is assumed on demand (assume_wf_once);
                its ORDER is left unconstrained (python: the order of d restricted to the kept keys) - sound, an iteration
                over m is then verified for every order.
    Every other shape of dict comprehension stays out of reach (EngineLimit -> UNDECIDED)."""
    E = _E()
    lim = "dict comprehension (line %s): give the enclosing function a contract-level model" % node.lineno
    if len(node.generators) != 1:
        raise EngineLimit(lim)
    g = node.generators[0]
    import ast as _ast

    tgt = g.target
    if not (isinstance(tgt, _ast.Tuple) and len(tgt.elts) == 2 and all(isinstance(e, _ast.Name) for e in tgt.elts)
            and isinstance(node.key, _ast.Name) and isinstance(node.value, _ast.Name)
            and node.key.id == tgt.elts[0].id and node.value.id == tgt.elts[1].id and tgt.elts[0].id != tgt.elts[1].id):
        raise EngineLimit(lim)
    it = eng.eval(g.iter, fr)
    if not (isinstance(it, PyVal) and it.kind == "mapview" and it.what == "items" and isinstance(it.of, SV) and isinstance(it.of.sort, MapOf)):
        raise EngineLimit(lim)
    src = it.of
    ms = src.sort
    ks = ksorts(ms)
    d = dom_arr(eng, src)
    vals = val_arrs(eng, src)
    n_src = eng.list_len(keys_ref(eng, src).t, ms.key)  # no well-formedness assumption here: quantified hypotheses cost counter-models
    kq = [bvar("dck", s_) for s_ in ks]
    kval = unflatten(ms.key, kq)
    fr2 = E.Frame(fr.module, fr.cls, fr.func, dict(fr.locals))
    saved_mode = eng.spec_mode
    nalloc0 = eng.path.nalloc
    eng.spec_mode = True  # the filter must be pure (no forking, no allocation)
    eng.bound_depth += 1
    try:
        vval = map_value(eng, src, kq)
        eng.assign(tgt.elts[0], kval, fr2, node.lineno)
        eng.assign(tgt.elts[1], vval, fr2, node.lineno)
        cond = bm.and_(*[eng.truth(eng.eval(c, fr2)) for c in g.ifs])
    finally:
        eng.spec_mode = saved_mode
        eng.bound_depth -= 1
    if eng.path.nalloc != nalloc0:
        raise EngineLimit(lim)
    mv = SV(ms, eng.new_ref())
    map_havoc(eng, mv, "dcomp")
    _set(eng, mv, "dom", 0, z3.Lambda(kq, z3.And(z3.Select(d, *kq), zb(cond))))
    for i_, va in enumerate(vals):
        _set(eng, mv, "val", i_, va)
    n_new = eng.list_len(keys_ref(eng, mv).t, ms.key)
    eng.path.assume(z3.And(n_new >= 0, n_new <= n_src), check=False)
    eng.path.notes.append("dict-comprehension (filtered copy) at line %s" % node.lineno)
    return mv
