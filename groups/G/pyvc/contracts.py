"""Sidecar contracts: loading, modular application at call sites, verification of a function body."""
import ast
import glob
import os

import z3

from .values import *  # noqa
from . import builtins_model as bm
from . import engine as E
from .containers import MapOfDefault

CLAUSES = {
    "requires", "ensures", "raises", "modifies", "modifies_all", "modifies_list", "modifies_map", "modifies_lists_of", "modifies_maps_of", "modifies_module", "invariant",
    "decreases", "local", "trusted", "ensures_raise", "note", "cover", "ghost_before_call", "loop_exit",
}


class Contract:
    def __init__(self, qual, func, node, tags, sidecar, kind="repo", opts=None):
        self.qual = qual
        self.func = func
        self.node = node
        self.tags = list(tags)
        self.sidecar = sidecar
        self.kind = kind  # repo | virtual | external
        self.opts = opts or {}
        self.param_sorts = dict(getattr(func, "__annotations__", {}))
        self.ret_sort = self.param_sorts.pop("return", None)
        self.requires = []  # (label, node)
        self.ensures = []
        self.raises = []  # dict(exc, when, label, iff, modifies)
        self.modifies = []  # (expr_node, field)  | ("all", field) | ("list", expr) | ("map", expr)
        self.modifies_lists = False
        self.modifies_maps = False
        self.invariants = {}
        self.decreases = {}
        self.local_sorts = {}
        self.trusted = None
        self.covers = []
        self.ghost_calls = []  # python statements (text) executed as ghost code at every call of this function, before the call
        self.loop_exits = {}  # loop ordinal -> [(label, expr)]: obligations at the normal exit of the loop
        self.ns = None
        for st in node.body:
            if isinstance(st, ast.Expr) and isinstance(st.value, ast.Constant):
                continue
            if isinstance(st, ast.Pass):
                continue
            if not (isinstance(st, ast.Expr) and isinstance(st.value, ast.Call) and isinstance(st.value.func, ast.Name) and st.value.func.id in CLAUSES):
                raise ValueError("%s: contract body line %d is not a clause" % (qual, st.lineno))
            call = st.value
            k = call.func.id
            a = call.args
            kw = {x.arg: x.value for x in call.keywords}
            lab = lambda i: a[i].value if isinstance(a[i], ast.Constant) and isinstance(a[i].value, str) else None
            if k in ("requires", "ensures", "cover"):
                if len(a) == 2:
                    item = (lab(0), a[1])
                else:
                    item = ("l%d" % st.lineno, a[0])
                {"requires": self.requires, "ensures": self.ensures, "cover": self.covers}[k].append(item)
            elif k == "raises":
                exc = a[0].id
                self.raises.append(
                    dict(exc=exc, when=kw.get("when"), label=(kw["label"].value if "label" in kw else exc), iff=bool(kw.get("iff") and kw["iff"].value),
                         modifies=[(("all" if isinstance(m.elts[0], ast.Constant) and m.elts[0].value == "all" else m.elts[0]), m.elts[1].value)
                                   for m in (kw["modifies"].elts if "modifies" in kw else [])],  # ("all", "Class.field") = whole-field havoc on the exceptional path
                         ensures=kw.get("ensures"))
                )
            elif k == "modifies":
                self.modifies.append((a[0], a[1].value))
            elif k == "modifies_all":
                self.modifies.append(("all", a[0].value))
            elif k == "modifies_list":
                self.modifies.append(("list", a[0], kw.get("when")))  # when=cond (pre-state): the list may change only if cond held
                self.modifies_lists = True
            elif k == "modifies_map":
                self.modifies.append(("map", a[0], kw.get("when")))
                self.modifies_maps = True
            elif k == "modifies_maps_of":
                # whole-sort havoc for dicts: the contents of EVERY dict of this MapOf sort may change
                self.modifies.append(("mapsof", a[0]))
                self.modifies_maps = True
            elif k == "modifies_module":
                self.modifies.append(("module", a[0].value, a[1].value))  # run-time module variable (module_var): e.g. flumine.config.current_time
            elif k == "modifies_lists_of":
                # whole-sort havoc: the contents of EVERY list with this element sort may change (the analogue of modifies_all
                # for list objects; used where the precise list depends on whether a dict key exists / on aliasing)
                self.modifies.append(("listsof", a[0]))
                self.modifies_lists = True
            elif k == "invariant":
                self.invariants.setdefault(a[0].value, []).append((lab(1), a[2]))
            elif k == "decreases":
                self.decreases[a[0].value] = a[1]
            elif k == "local":
                pass  # evaluated at load (needs namespace)
            elif k == "trusted":
                self.trusted = a[0].value
            elif k == "ghost_before_call":
                self.ghost_calls.append(ast.parse(a[0].value).body)
            elif k == "loop_exit":
                self.loop_exits.setdefault(a[0].value, []).append((lab(1), a[2]))
            elif k == "note":
                pass

    @property
    def short(self):
        return self.qual.split("::")[-1]


class Spec:
    def __init__(self):
        self.schemas = {}  # cls -> {field: sort}
        self.structs = {}  # cls -> dict(fields, absent_keyerror)
        self.records = {}
        self.module_vars = {}
        self.consts = {}
        self.inlines = set()
        self.locks = set()
        self.abstract_bools = {}
        self.class_tags = {}
        self.contracts = {}
        self.virtuals = {}
        self.externals = {}
        self.specfuncs = {}
        self.specconsts = {}
        self.writes_seen = []
        self.files = []
        self.clock = None
        self.ground = {}
        self.abstract_props = []
        self.dispatch = {}
        self.strict_logging = set()
        self.module_aliases = {}
        self.owned = set()
        self.bound_method_objects = {}
        self.iterator_models = {}  # class -> (sequence field, cursor field)
        self.owned_quantified = set()  # owned fields whose ownership is additionally asserted as a quantified heap axiom (blocks counter-model search: off by default)
        self.virtual_shadow = set()

    # ---- loading
    def load_dir(self, d, ground=None):
        self.ground = ground or {}
        for f in sorted(glob.glob(os.path.join(d, "*.py"))):
            self.load_file(f)

    def load_file(self, path):
        src = open(path).read()
        tree = ast.parse(src)
        self.files.append(path)
        spec = self
        fnodes = {}
        for n in tree.body:
            if isinstance(n, ast.FunctionDef):
                first = min([d.lineno for d in n.decorator_list] + [n.lineno])
                fnodes[first] = n

        def node_of(func):
            return fnodes[func.__code__.co_firstlineno]

        def schema(cls, **fields):
            spec.schemas.setdefault(cls, {}).update(fields)

        def struct(cls, absent_keyerror=True, **fields):
            spec.schemas.setdefault(cls, {}).update(fields)
            spec.structs[cls] = dict(fields=list(fields), absent_keyerror=absent_keyerror)

        def record(cls, *sorts):
            spec.schemas.setdefault(cls, {}).update({str(i): s for i, s in enumerate(sorts)})
            spec.records[cls] = len(sorts)

        def module_var(mod, **vars_):
            spec.module_vars.setdefault(mod, {}).update(vars_)

        def const(mod, name, value):
            spec.consts[(mod, name)] = value

        def inline(*quals):
            spec.inlines.update(quals)

        def lock(cls):
            spec.locks.add(cls)

        def abstract_bool(cls, field):
            spec.abstract_bools[cls] = field
            spec.schemas.setdefault(cls, {})[field] = BOOL

        def class_tag(cls, field):
            spec.class_tags[cls] = field
            spec.schemas.setdefault(cls, {})[field] = ATOM

        def contract(qual, tags=(), **opts):
            def deco(func):
                c = Contract(qual, func, node_of(func), tags, path, "repo", opts)
                c.ns = ns
                _locals(c)
                spec.contracts[qual] = c
                return func

            return deco

        def virtual(cls, name, tags=(), **opts):
            def deco(func):
                c = Contract("virtual::%s.%s" % (cls, name), func, node_of(func), tags, path, "virtual", opts)
                c.ns = ns
                spec.virtuals[(cls, name)] = c
                if opts.get("shadows_default"):
                    spec.virtual_shadow.add((cls, name))
                return func

            return deco

        def lemma(name, tags=(), **opts):
            def deco(func):
                c = Contract("lemma::%s" % name, func, node_of(func), tags, path, "lemma", opts)
                c.ns = ns
                spec.contracts["lemma::%s" % name] = c
                return func

            return deco

        def external(full, tags=(), **opts):
            def deco(func):
                c = Contract("external::%s" % full, func, node_of(func), tags, path, "external", opts)
                c.ns = ns
                spec.externals[full] = c
                return func

            return deco

        def _locals(c):
            for st in c.node.body:
                if isinstance(st, ast.Expr) and isinstance(st.value, ast.Call) and getattr(st.value.func, "id", None) == "local":
                    for k in st.value.keywords:
                        c.local_sorts[k.arg] = eval(compile(ast.Expression(k.value), path, "eval"), ns)

        def abstract_property(cls, name, sort):
            spec.schemas.setdefault(cls, {})[name] = sort
            spec.abstract_props.append("%s.%s" % (cls, name))

        def dispatch(static_cls, dynamic_cls):
            spec.dispatch[static_cls] = dynamic_cls

        def grid(lo, step, n):
            return PyVal("grid", lo=frac(lo), step=frac(step), n=n)

        def ground_numbers(key):
            return PyVal("list", items=[bm.const_value(frac(x)) for x in spec.ground[key]])

        def charset(chars):
            return PyVal("charset", codes=sorted(ord(c) for c in chars))

        def clock(mod, var):
            spec.clock = (mod, var)

        def strict_logging(*quals):
            spec.strict_logging.update(quals)

        def module_alias(name, modname):
            spec.module_aliases[name] = modname

        def bound_method_object(cls, qual, **ghost_fields):
            """bound_method_object("AddMarketFn", "file::Class.method", g_x="self.expr", ...): a bound method `obj.method` passed where a
            parameter of sort Ref(cls) is expected is represented by a fresh object of class cls whose ghost fields are initialised
            from the receiver (expressions over `self`); the @virtual cls.__call__ contract stands for the method's own contract"""
            spec.bound_method_objects[qual] = (cls, ghost_fields)

        def iterator_model(cls, seq, pos):
            """iterator_model("StreamGen", seq="g_seq", pos="g_pos"): an external iterator / generator object is modelled by the
            (ghost) sequence of everything it will ever yield and a cursor: next(it) returns seq[pos] and advances, raising
            StopIteration when pos == len(seq); `for x in it` consumes seq[pos:]"""
            spec.iterator_models[cls] = (seq, pos)

        def owned(*quals):
            """owned("Class.field", ...): ASSUMPTION that the list / dict stored in the field is private to its object (created by the
            constructor, never shared): containers reached through different (object, field) pairs are different objects"""
            for q in quals:
                cls, fld = q.split(".")
                spec.owned.add((cls, fld))

        ns = dict(
            REAL=REAL, MONEY=MONEY, INT=INT, BOOL=BOOL, ATOM=ATOM, CHARS=CHARS, NONE=NONE, Ref=Ref, Opt=Opt, Tup=Tup, ListOf=ListOf, MapOf=MapOf,
            schema=schema, struct=struct, record=record, module_var=module_var, const=const, inline=inline, lock=lock,
            abstract_bool=abstract_bool, class_tag=class_tag, contract=contract, virtual=virtual, external=external, lemma=lemma,
            abstract_property=abstract_property, dispatch=dispatch, MapOfDefault=MapOfDefault, grid=grid, ground_numbers=ground_numbers, charset=charset, clock=clock, Fraction=Fraction_, strict_logging=strict_logging, module_alias=module_alias, owned=owned, bound_method_object=bound_method_object, iterator_model=iterator_model,
        )
        # clause names must exist so that decorated bodies compile (they are never run)
        for k in CLAUSES:
            ns.setdefault(k, lambda *a, **kw: None)
        exec(compile(tree, path, "exec"), ns)
        for n in tree.body:
            if isinstance(n, ast.FunctionDef) and not n.decorator_list:
                self.specfuncs[n.name] = PyVal("specfunc", node=n, name=n.name)
            elif isinstance(n, ast.Assign) and len(n.targets) == 1 and isinstance(n.targets[0], ast.Name):
                v = ns.get(n.targets[0].id)
                if isinstance(v, (int, float, str, bool)) or v is None:
                    self.specconsts[n.targets[0].id] = bm.const_value(v)
                elif isinstance(v, (tuple, list)) and all(isinstance(x, (int, float, str)) for x in v):
                    self.specconsts[n.targets[0].id] = PyVal("tuple", items=[bm.const_value(x) for x in v])
                elif isinstance(v, PyVal):
                    self.specconsts[n.targets[0].id] = v

    # ---- queries
    def field_sort(self, repo, cls, field):
        for c in repo.mro(cls):
            f = self.schemas.get(c)
            if f and field in f:
                return c, f[field]
        return None

    def all_fields(self, repo, cls):
        out = {}
        for c in reversed(repo.mro(cls)):
            for f, s in self.schemas.get(c, {}).items():
                out[f] = (c, s)
        return out

    def fields_named(self, attr):
        return [(c, f[attr]) for c, f in self.schemas.items() if attr in f]

    def lookup(self, name):
        if name in self.specfuncs:
            return self.specfuncs[name]
        if name in self.specconsts:
            return self.specconsts[name]
        return None

    def const_spec(self, module, name):
        return self.consts.get((module.modname, name))

    def abstract_bool(self, cls):
        for c, f in self.abstract_bools.items():
            if c == cls:
                return (c, f)
        return None

    def virtual_member(self, cls, attr):
        return self.virtuals.get((cls, attr))

    def virtual_shadows(self, cls, attr):
        """@virtual(..., shadows_default=True): the repo's default body of an overridable hook is NOT used (A4)"""
        return (cls, attr) in self.virtual_shadow

    def contract_for(self, qual):
        return self.contracts.get(qual)

    def may_inline(self, qual):
        return qual in self.inlines

    def inline_all_pure(self, qual):
        return False

    def module_var_sort(self, modname, attr):
        return self.module_vars.get(modname, {}).get(attr)

    def note_write(self, eng, owner, attr, line):
        self.writes_seen.append((eng.cur_func, owner, attr, line))

    def struct_fields(self, cls):
        return self.structs[cls]["fields"]

    def is_struct(self, cls):
        return cls in self.structs

    def struct_absent_is_keyerror(self, cls):
        return self.structs[cls]["absent_keyerror"]

    def is_record(self, cls):
        return cls in self.records

    def record_len(self, cls):
        return self.records[cls]

    def class_tag_field(self, clsname):
        return None

    def class_tag(self, eng, v):
        for c in eng.repo.mro(v.sort.cls):
            if c in self.class_tags:
                return za(eng.read_field(v.t, c, self.class_tags[c], ATOM).t)
        return None

    def builtin_contract(self, name):
        return self.externals.get("builtins." + name)

    def external_contract(self, full):
        return self.externals.get(full)

    def clock_now(self, eng):
        if self.clock is None:
            raise EngineLimit("utcnow(): no clock(...) declared")
        mod, var = self.clock
        return eng.read_field(z3.IntVal(0), "$mod:" + mod, var, REAL)

    def is_lock(self, cls):
        return cls in self.locks

    def contracts_named(self, name):
        out = [c for q, c in self.contracts.items() if q.split("::")[-1].split(".")[-1] == name]
        out += [c for (cl, n), c in self.virtuals.items() if n == name]
        return out

    def inline_candidates(self, repo, name):
        out = []
        for q in self.inlines:
            if q.split("::")[-1].split(".")[-1].replace("@setter", "") == name:
                try:
                    out.append((q, repo.find(q)))
                except KeyError:
                    pass
        return out


def Fraction_(*a):
    from fractions import Fraction

    return Fraction(*a)


# --------------------------------------------------------------------------- clause evaluation
def eval_clause(eng, c, node, fr, extra=None, as_bool=True):
    saved = eng.spec_mode
    eng.spec_mode = True
    try:
        v = eng.eval(node, fr)
    finally:
        eng.spec_mode = saved
    if as_bool:
        return eng.truth(v)
    return v


def spec_frame(eng, c, locals_, old_heap, old_locals, module=None, old_nalloc=0):
    fr = E.Frame(module, None, None, dict(locals_))
    fr.old_heap = old_heap
    fr.old_locals = dict(old_locals)
    fr.old_nalloc = old_nalloc  # number of objects the path had allocated when old_heap was taken
    return fr


def bind_contract_args(eng, c, node, args, kwargs):
    """bind call arguments to the contract's parameter names (taken from the sidecar signature)"""
    fr = E.Frame(None, None, None, {})
    eng.bind_params(c.node, fr, args, dict(kwargs), None)
    out = {}
    for k, v in fr.locals.items():
        s = c.param_sorts.get(k)
        if isinstance(s, Ref) and isinstance(v, PyVal) and v.kind == "bound":
            qual = "%s::%s.%s" % (v.module.relpath, v.cls.name, v.name)
            bmo = eng.spec.bound_method_objects.get(qual)
            if bmo is not None and bmo[0] == s.cls:
                obj = SV(Ref(s.cls), eng.new_ref())
                fr0 = E.Frame(None, None, None, {"self": v.self_})
                saved = eng.spec_mode
                eng.spec_mode = True
                try:
                    for fname, expr in bmo[1].items():
                        fi = eng.field_info(s.cls, fname)
                        val = eng.eval(ast.parse(expr, mode="eval").body, fr0)
                        eng.write_field(obj.t, fi[0], fname, fi[1], bm.coerce(eng, val, fi[1]))
                finally:
                    eng.spec_mode = saved
                out[k] = obj
                continue
        if s is not None and isinstance(v, (SV, PyVal)):
            try:
                v = bm.coerce(eng, v, s)
            except EngineLimit:
                pass
        out[k] = v
    return out


def havoc_modifies(eng, c, mods, fr, prefix):
    for m in mods:
        if m[0] in ("list", "map") and len(m) > 2 and m[2] is not None:
            # conditional frame: the havoc happens on the paths where the (pre-state) condition holds
            if not eng.branch(zb(eval_clause(eng, c, m[2], fr)), "modifies-when"):
                continue
        if m[0] == "all":
            f = m[1]
            if "." in f:
                cls, fld = f.split(".")
                owner, fs = eng.field_info(cls, fld)
                eng.havoc_field_all(owner, fld, fs, prefix)
            else:
                for owner, fs in eng.spec.fields_named(f):
                    eng.havoc_field_all(owner, f, fs, prefix)
        elif m[0] == "list":
            lv = eval_clause(eng, c, m[1], fr, as_bool=False)
            if isinstance(lv, SV) and isinstance(lv.sort, Opt):
                lv = lv.t[1]
            elem = lv.sort.elem
            n = z3.Int(fresh_name(prefix + "_len"))
            eng.path.assume(n >= 0, check=False)
            arrs = [z3.Const(fresh_name(prefix + "_items"), z3.ArraySort(z3.IntSort(), zs)) for zs in z3sorts(elem)]
            eng.list_set_all(lv.t, elem, n, arrs)
        elif m[0] == "map":
            from . import containers as ct

            mv = eval_clause(eng, c, m[1], fr, as_bool=False)
            ct.map_havoc(eng, mv, prefix)
        elif m[0] == "module":
            sort = eng.spec.module_var_sort(m[1], m[2]) or (ATOM if (m[1], m[2]) == ("datetime", "datetime") else None)
            if sort is None:
                raise EngineLimit("modifies_module(%s, %s): not a declared module_var" % (m[1], m[2]))
            eng.havoc_field_at(z3.IntVal(0), "$mod:" + m[1], m[2], sort, prefix)
        elif m[0] == "mapsof":
            from . import containers as ct

            ct.maps_havoc_sort(eng, eval(compile(ast.Expression(m[1]), "<sort>", "eval"), c.ns), prefix)
        elif m[0] == "listsof":
            elem = eval(compile(ast.Expression(m[1]), "<sort>", "eval"), c.ns)
            eng.heap_arrays(("$List", elem.name, "len"), INT)
            eng.list_items(z3.IntVal(0), elem)
            for k in list(eng.path.heap):
                if k[0] == "$List" and k[1] == elem.name:
                    eng.path.heap[k] = z3.Const(fresh_name("%s_%s" % (prefix, "_".join(str(x) for x in k[1:]))), eng.path.heap[k].sort())
        else:
            base = eval_clause(eng, c, m[0], fr, as_bool=False)
            if isinstance(base, SV) and isinstance(base.sort, Opt):
                base = base.t[1]
            if isinstance(base, SV) and isinstance(base.sort, ListOf):
                # every element of the list: field of each
                raise EngineLimit("modifies over list elements: use modifies_all")
            owner, fs = eng.field_info(base.sort.cls, m[1])
            eng.havoc_field_at(base.t, owner, m[1], fs, prefix)


def run_ghost_before_call(eng, c, locals_):
    """ghost_before_call("stmts"): ghost statements (assignments to ghost fields / ghost dict entries of objects reachable from the
    arguments) executed in the CALLER's path right before the call: they record that the call happens (a call trace in scalar
    monitors); they are not part of the callee's body and are ignored when the body itself is verified"""
    if not c.ghost_calls:
        return
    gfr = E.Frame(None, None, None, dict(locals_))
    saved = eng.spec_mode
    eng.spec_mode = True  # ghost code is pure specification: conditions are merged (ite), never forked, and cannot raise
    try:
        for body in c.ghost_calls:
            eng.exec_block(body, gfr)
    finally:
        eng.spec_mode = saved


def apply_contract_at_call(eng, c, module, cls, node, args, kwargs, line):
    p = eng.path
    eng.called_contracts.add(c.qual)
    locals_ = bind_contract_args(eng, c, node, args, kwargs)
    run_ghost_before_call(eng, c, locals_)
    pre_heap = dict(p.heap)
    n0 = p.nalloc
    fr = spec_frame(eng, c, locals_, pre_heap, locals_, old_nalloc=n0)
    site = "%s/call-pre:%s" % (eng.cur_short, c.short)
    for label, n in c.requires:
        g = eval_clause(eng, c, n, fr)
        eng.oblige("%s.%s@%s" % (site, label, line), zb(g), "call-pre", line)
        p.assume(zb(g), check=False)
    # exceptional outcomes
    nr = len(c.raises)
    choice = 0
    if nr:
        choice = p.choose(nr + 1, "call:%s" % c.short)
    if choice > 0:
        r = c.raises[choice - 1]
        if r["when"] is not None:
            p.assume(zb(eval_clause(eng, c, r["when"], fr)))
        havoc_modifies(eng, c, r["modifies"], fr, "cx_%s" % c.short.replace(".", "_"))
        if r.get("ensures") is not None:
            fr_post = spec_frame(eng, c, locals_, pre_heap, locals_, old_nalloc=n0)
            p.assume(zb(eval_clause(eng, c, r["ensures"], fr_post)), check=False)
        raise E.PyRaise(r["exc"], None, line)
    for r in c.raises:
        if r["iff"] and r["when"] is not None:
            p.assume(bm.not_(eval_clause(eng, c, r["when"], fr)))
    # normal outcome
    havoc_modifies(eng, c, c.modifies, fr, "c_%s" % c.short.replace(".", "_"))
    for fname in c.opts.get("allocates", ()):
        # constructor summaries: the named members of `self` are objects the constructor allocates (fresh references); their
        # contents are whatever the ensures clauses say  ("result.<field>": members of the freshly returned object)
        if fname.startswith("result."):
            continue
        selfv = locals_.get("self")
        fi = eng.field_info(selfv.sort.cls, fname) if isinstance(selfv, SV) and isinstance(selfv.sort, Ref) else None
        if fi is None or not isinstance(fi[1], (Ref, ListOf, MapOf)):
            raise EngineLimit("allocates=%s: not a reference field of self" % fname)
        if isinstance(fi[1], MapOf):
            from . import containers as ct

            eng.write_field(selfv.t, fi[0], fname, fi[1], ct.map_new(eng, fi[1], []))
        elif isinstance(fi[1], ListOf):
            eng.write_field(selfv.t, fi[0], fname, fi[1], eng.list_new(fi[1].elem, []))
        else:
            eng.write_field(selfv.t, fi[0], fname, fi[1], SV(fi[1], eng.new_ref()))
    if c.ret_sort is not None and c.ret_sort != NONE:
        if c.opts.get("fresh_result") and isinstance(c.ret_sort, (Ref, ListOf, MapOf)):
            res = SV(c.ret_sort, eng.new_ref())
        else:
            res = fresh_value(c.ret_sort, "ret_%s" % c.short.replace(".", "_"))
            eng.wf_assume(res)
    else:
        res = NONE_V
    for fname in c.opts.get("allocates", ()):
        if not fname.startswith("result."):
            continue
        if not c.opts.get("fresh_result"):
            raise EngineLimit("allocates=%s needs fresh_result" % fname)
        # dotted path below the fresh result ("result.blotter", then "result.blotter._orders"): every step is allocated here
        parts = fname.split(".")[1:]
        cur = res
        for a in parts[:-1]:
            fi0 = eng.field_info(cur.sort.cls, a)
            cur = eng.read_field(cur.t, fi0[0], a, fi0[1])
        last = parts[-1]
        fi = eng.field_info(cur.sort.cls, last) if isinstance(cur, SV) and isinstance(cur.sort, Ref) else None
        if fi is None or not isinstance(fi[1], (Ref, ListOf, MapOf)):
            raise EngineLimit("allocates=%s: not a reference field" % fname)
        if isinstance(fi[1], ListOf):
            eng.write_field(cur.t, fi[0], last, fi[1], eng.list_new(fi[1].elem, []))
        elif isinstance(fi[1], MapOf):
            from . import containers as ct

            eng.write_field(cur.t, fi[0], last, fi[1], ct.map_new(eng, fi[1], []))
        else:
            eng.write_field(cur.t, fi[0], last, fi[1], SV(fi[1], eng.new_ref()))
    fr_post = spec_frame(eng, c, locals_, pre_heap, locals_, old_nalloc=n0)
    fr_post.locals["result"] = res
    for label, n in c.ensures:
        g = eval_clause(eng, c, n, fr_post)
        p.assume(zb(g), check=False)
    if eng.prune and p.solver.check() == z3.unsat:
        # diagnostic (tools/one.py prints it): the NORMAL outcome of a callee contract contradicts the caller's state - legitimate when
        # the callee must raise here, a warning sign (contradictory assumed ensures => vacuous caller paths) otherwise
        eng.infeasible_normal_outcomes = getattr(eng, "infeasible_normal_outcomes", [])
        eng.infeasible_normal_outcomes.append((eng.cur_short, c.short, line))
        raise E.Infeasible()
    return res


def apply_builtin_sorted(eng, v, kwargs, line):
    raise EngineLimit("sorted(): no model")


def apply_list_sort(eng, base, kwargs, line):
    c = eng.spec.external_contract("builtins.list.sort")
    if c is None:
        raise EngineLimit("list.sort(): no assumed contract")
    key = kwargs.get("key")
    extra = [key] if key is not None else []
    if kwargs.get("reverse") is not None:
        raise EngineLimit("list.sort(reverse=...)")
    return apply_contract_at_call(eng, c, None, None, None, [base] + extra, {}, line)


# --------------------------------------------------------------------------- verification of one function
class FunctionResult:
    def __init__(self, c):
        self.contract = c
        self.obligations = []
        self.paths = 0
        self.status = "ok"
        self.limit = None
        self.covers = []
        self.info = {}


def make_param(eng, name, sort):
    if isinstance(sort, PyVal) or not isinstance(sort, Sort):
        return sort
    terms = [z3.Const("arg_%s_%d" % (name, i), zs) for i, zs in enumerate(z3sorts(sort))]
    v = unflatten(sort, terms)
    eng.wf_assume(v)
    return v


def verify_lemma(eng, c):
    """a spec-level lemma: fresh parameters, assume requires, prove ensures"""
    res = FunctionResult(c)
    res.info = dict(file=os.path.relpath(c.sidecar, os.path.dirname(os.path.dirname(c.sidecar))), lines=[c.node.lineno, c.node.end_lineno], sha256="")
    eng.cur_func = c.qual
    eng.cur_short = c.short
    eng.cur_tags = c.tags
    eng.cur_target = c.qual

    def run(p):
        locals_ = {}
        for a in c.node.args.args:
            locals_[a.arg] = make_param(eng, a.arg, c.param_sorts[a.arg])
        fr = spec_frame(eng, c, locals_, {}, locals_)
        eng.region_frame = fr
        for label, n in c.requires:
            p.assume(zb(eval_clause(eng, c, n, fr)), check=False)
        if p.solver.check() == z3.unsat:
            raise E.Infeasible()
        for label, n in c.ensures:
            g = eval_clause(eng, c, n, fr)
            eng.oblige("%s/lemma:%s" % (eng.cur_short, label), zb(g), "ensures", extra={"clause": ast.unparse(n)})
        eng.oblige("%s/canary" % eng.cur_short, z3.BoolVal(False), "canary")

    try:
        results = eng.explore(run, 10)
    except EngineLimit as e:
        res.status = "out-of-reach"
        res.limit = str(e)
        return res
    for p, status in results:
        res.paths += 1
        res.obligations += p.obligations
    return res


def verify_function(eng, c, max_paths=3000):
    if c.kind == "lemma":
        return verify_lemma(eng, c)
    res = FunctionResult(c)
    module, cls, node = eng.repo.find(c.qual)
    res.info = dict(file=module.relpath, lines=[node.lineno, node.end_lineno], sha256=eng.repo.sha(module, node))
    if getattr(node, "_other_decorators", None):
        res.status = "out-of-reach"
        res.limit = "decorator %s" % node._other_decorators
        return res
    eng.cur_func = c.qual
    eng.cur_short = c.short
    eng.cur_tags = c.tags
    eng.cur_target = c.qual
    eng.cur_contract_opts = c.opts

    def run(p):
        eng.depth = 0
        fr = E.Frame(module, cls, node, {})
        fr.contract = c
        loops_ = sorted((n for n in ast.walk(node) if isinstance(n, (ast.For, ast.While))), key=lambda n: (n.lineno, n.col_offset))
        fr.loop_ids = {id(n): k for k, n in enumerate(loops_)}
        a = node.args
        params = [x.arg for x in a.posonlyargs + a.args + a.kwonlyargs]
        defaults = {}
        nd = len(a.defaults)
        pos = a.posonlyargs + a.args
        for i, d in enumerate(a.defaults):
            defaults[pos[len(pos) - nd + i].arg] = d
        for ko, kd in zip(a.kwonlyargs, a.kw_defaults):
            if kd is not None:
                defaults[ko.arg] = kd
        for nm in params:
            if nm in c.param_sorts:
                fr.locals[nm] = make_param(eng, nm, c.param_sorts[nm])
            elif nm == "self" and cls is not None:
                fr.locals[nm] = make_param(eng, nm, Ref(c.opts.get("self_class", cls.name)))
            elif nm in defaults:
                fr.locals[nm] = eng.eval(defaults[nm], E.Frame(module, None, None, {}))
            else:
                raise EngineLimit("parameter %s of %s has no declared sort" % (nm, c.qual))
        if a.vararg or a.kwarg:
            if a.vararg:
                fr.locals[a.vararg.arg] = bm.make_tuple([])
            if a.kwarg:
                fr.locals[a.kwarg.arg] = PyVal("dictlit", items=[])
        entry_locals = dict(fr.locals)
        fr.old_locals = entry_locals
        pre_heap = {}
        fr.old_heap = pre_heap
        p.heap0 = pre_heap
        sfr = spec_frame(eng, c, entry_locals, pre_heap, entry_locals, module)
        eng.region_frame = sfr
        for label, n in c.requires:
            p.assume(zb(eval_clause(eng, c, n, sfr)), check=False)
        # materialise the lazily created initial arrays in the pre-state snapshot
        pre_heap.update(p.heap)
        if p.solver.check() == z3.unsat:
            p.notes.append("requires unsatisfiable")
            raise E.Infeasible()
        res.covers.append(("requires", True))
        result = NONE_V
        try:
            try:
                eng.exec_block(node.body, fr)
            except E.ReturnEx as r:
                result = r.value
        except E.PyRaise as ex:
            finish_exceptional(eng, c, ex, entry_locals, pre_heap, module)
            return
        except (E.BreakEx, E.ContinueEx):
            raise EngineLimit("break/continue outside loop")
        finish_normal(eng, c, result, entry_locals, pre_heap, module)

    try:
        results = eng.explore(run, max_paths)
    except EngineLimit as e:
        res.status = "out-of-reach"
        res.limit = str(e)
        return res
    for p, status in results:
        res.paths += 1
        res.obligations += p.obligations
    return res


def pre_key(k):
    return k


def frame_obligations(eng, c, mods, entry_locals, pre_heap, module, tag):
    """every heap cell not named by a modifies clause is unchanged (for objects that existed at entry)"""
    p = eng.path
    fr = spec_frame(eng, c, entry_locals, pre_heap, entry_locals, module)
    # evaluate modifies bases in the PRE state
    saved = p.heap
    p.heap = dict(pre_heap)
    allowed = {}  # (owner, field) -> list of ref terms | "all"
    allowed_lists = []
    allowed_cond = []  # (ref, condition): allowed only where the pre-state condition held
    allowed_list_sorts = set()
    allowed_map_sorts = set()
    try:
        for m in mods:
            if m[0] == "listsof":
                allowed_list_sorts.add(eval(compile(ast.Expression(m[1]), "<sort>", "eval"), c.ns).name)
                continue
            if m[0] == "module":
                allowed[("$mod:" + m[1], m[2])] = "all"
                continue
            if m[0] == "mapsof":
                ms_ = eval(compile(ast.Expression(m[1]), "<sort>", "eval"), c.ns)
                allowed_map_sorts.add((ms_.key.name, ms_.val.name))
                continue
            if m[0] == "all":
                f = m[1]
                if "." in f:
                    cls, fld = f.split(".")
                    owner, fs = eng.field_info(cls, fld)
                    allowed[(owner, fld)] = "all"
                else:
                    for owner, fs in eng.spec.fields_named(f):
                        allowed[(owner, f)] = "all"
            elif m[0] in ("list", "map"):
                lv = eval_clause(eng, c, m[1], fr, as_bool=False)
                if isinstance(lv, SV) and isinstance(lv.sort, Opt):
                    lv = lv.t[1]
                if len(m) > 2 and m[2] is not None:
                    allowed_cond.append((zr(lv.t), zb(eval_clause(eng, c, m[2], fr))))
                else:
                    allowed_lists.append(zr(lv.t))
            else:
                base = eval_clause(eng, c, m[0], fr, as_bool=False)
                if isinstance(base, SV) and isinstance(base.sort, Opt):
                    base = base.t[1]
                owner, fs = eng.field_info(base.sort.cls, m[1])
                cur = allowed.setdefault((owner, m[1]), [])
                if cur != "all":
                    cur.append(zr(base.t))
    finally:
        pre_heap.update({k: v for k, v in p.heap.items() if k not in pre_heap})
        p.heap = saved
    alloc0 = z3.Int("alloc0")
    for k, arr in p.heap.items():
        old = pre_heap.get(k)
        if old is None:
            old = z3.Array("H0_%s_%d" % (".".join(str(x) for x in k[:-1]), k[-1]), z3.IntSort(), arr.sort().range()) if k[0] != "$List" and k[0] != "$Map" else None
        if old is None or arr is old or arr.eq(old):
            continue
        r = z3.Int(fresh_name("fr"))
        if k[0] == "$List" and k[1] in allowed_list_sorts:
            continue
        if k[0] == "$Map" and (k[1], k[2]) in allowed_map_sorts:
            continue
        if k[0] in ("$List", "$Map"):
            excl = [r != x for x in allowed_lists] + [z3.Or(r != x, z3.Not(cnd)) for x, cnd in allowed_cond]
            if k[0] == "$List":
                # the key-order list inside the dict model is not a program object: a dict is framed through its $Map arrays
                excl.append(z3.Not(E.IS_KEYS(r)))
            goal = z3.Implies(z3.And(r > 0, r <= alloc0, *excl), z3.Select(arr, r) == z3.Select(old, r))
            eng.oblige("%s/frame%s:%s" % (eng.cur_short, tag, "_".join(str(x) for x in k)), goal, "frame")
            continue
        owner, field = k[0], k[1]
        al = allowed.get((owner, field))
        if al == "all":
            continue
        if isinstance(owner, str) and owner.startswith("$mod:"):
            # run-time module variables live at reference 0: a write must be declared with modifies_module
            eng.oblige("%s/frame%s:%s.%s" % (eng.cur_short, tag, owner[5:], field), z3.Select(arr, 0) == z3.Select(old, 0), "frame")
            continue
        excl = [r != x for x in (al or [])]
        goal = z3.Implies(z3.And(r > 0, r <= alloc0, *excl), z3.Select(arr, r) == z3.Select(old, r))
        # when the post-state array is syntactically a chain of stores over the pre-state array, the cells that can differ are
        # exactly the stored-to references: state the same goal at those references (equivalent, and free of the skolem r under
        # a store - the form on which the solvers answer "unknown" instead of producing the counter-model)
        idxs, base = [], arr
        while z3.is_store(base) and base.num_args() == 3:
            idxs.append(base.arg(1))
            base = base.arg(0)
        if idxs and base.eq(old):
            goal = z3.And(*[z3.substitute(goal, (r, ix)) for ix in idxs])
        eng.oblige("%s/frame%s:%s.%s" % (eng.cur_short, tag, owner, field), goal, "frame")


def finish_normal(eng, c, result, entry_locals, pre_heap, module):
    p = eng.path
    fr = spec_frame(eng, c, entry_locals, pre_heap, entry_locals, module)
    if isinstance(result, PyVal) and c.ret_sort is not None and c.ret_sort != NONE:
        result = bm.coerce(eng, result, c.ret_sort)
    fr.locals["result"] = result
    for r in c.raises:
        if r["iff"] and r["when"] is not None:
            g = bm.not_(eval_in_pre(eng, c, r["when"], entry_locals, pre_heap, module))
            eng.oblige("%s/raises-iff:%s" % (eng.cur_short, r["label"]), zb(g), "ensures")
    if c.opts.get("fresh_result") and isinstance(result, SV) and isinstance(result.sort, (Ref, ListOf, MapOf)):
        eng.oblige("%s/ensures:result_is_fresh" % eng.cur_short, zr(result.t) > z3.Int("alloc0"), "ensures")
    for label, n in c.ensures:
        g = eval_clause(eng, c, n, fr)
        eng.oblige("%s/ensures:%s" % (eng.cur_short, label), zb(g), "ensures", extra={"clause": ast.unparse(n)})
    frame_obligations(eng, c, c.modifies, entry_locals, pre_heap, module, "")
    eng.oblige("%s/canary" % eng.cur_short, z3.BoolVal(False), "canary")


def eval_in_pre(eng, c, node, entry_locals, pre_heap, module, as_bool=True):
    """evaluate a clause against the pre-state heap"""
    p = eng.path
    fr = spec_frame(eng, c, entry_locals, pre_heap, entry_locals, module)
    saved = p.heap
    p.heap = dict(pre_heap)
    try:
        return eval_clause(eng, c, node, fr, as_bool=as_bool)
    finally:
        pre_heap.update({k: v for k, v in p.heap.items() if k not in pre_heap})
        p.heap = saved


def finish_exceptional(eng, c, ex, entry_locals, pre_heap, module):
    p = eng.path
    matches = [r for r in c.raises if eng.exc_is_sub(ex.exc, r["exc"])]
    if not matches:
        eng.oblige("%s/no-unexpected-exception:%s@%s" % (eng.cur_short, ex.exc, ex.line), z3.BoolVal(False), "safety", ex.line)
        return
    r = matches[0]
    # the 'when' condition is evaluated in the pre-state
    saved = p.heap
    if r["when"] is not None:
        fr = spec_frame(eng, c, entry_locals, pre_heap, entry_locals, module)
        p.heap = dict(pre_heap)
        try:
            g = eval_clause(eng, c, r["when"], fr)
        finally:
            pre_heap.update({k: v for k, v in p.heap.items() if k not in pre_heap})
            p.heap = saved
        eng.oblige("%s/raises:%s@%s" % (eng.cur_short, r["label"], ex.line), zb(g), "raises", ex.line, extra={"clause": ast.unparse(r["when"])})
    if r.get("ensures") is not None:
        fr = spec_frame(eng, c, entry_locals, pre_heap, entry_locals, module)
        g = eval_clause(eng, c, r["ensures"], fr)
        eng.oblige("%s/raises-ensures:%s@%s" % (eng.cur_short, r["label"], ex.line), zb(g), "raises", ex.line)
    frame_obligations(eng, c, r["modifies"], entry_locals, pre_heap, module, "-on-%s" % r["label"])
    eng.oblige("%s/canary-raise:%s" % (eng.cur_short, r["label"]), z3.BoolVal(False), "canary")
