"""Loops with sidecar invariants: establish / havoc / assume / body once / re-establish."""
import ast

import z3

from .values import *  # noqa
from . import builtins_model as bm
from . import engine as E

LIST_MUTATORS = {"append", "remove", "clear", "pop", "extend", "sort", "insert"}


class WriteSet:
    def __init__(self):
        self.fine = []  # (base_ast, attr)   attribute store on a loop-invariant base
        self.fine_lists = []  # list_expr_ast  mutated list reached by a loop-invariant expression
        self.coarse_attrs = set()  # attr names: every (owner, attr) heap array
        self.coarse_lists = False
        self.coarse_list_sorts = {}  # element-sort name -> sort: every list of that element sort (modifies_lists_of)
        self.fresh_list_sorts = {}  # element-sort name -> sort: lists of that element sort ALLOCATED AFTER the function's entry
        self.coarse_maps = False
        self.coarse_map_sorts = {}  # (key sort name, value sort name) -> MapOf sort: every dict of that sort
        self.module_vars = set()  # (module, variable) written through a callee's modifies_module
        self.names = set()


def expr_invariant(node, assigned):
    """expression mentions only names not assigned in the loop and no calls"""
    for n in ast.walk(node):
        if isinstance(n, ast.Name) and n.id in assigned:
            return False
        if isinstance(n, (ast.Call, ast.Subscript)):
            return False
    return True


def static_classes(eng, fr, assigned, extra=None):
    """names whose static class is known while the loop runs: locals not assigned in the loop (plus the loop target, whose
    class is the element sort of the iterated sequence, when the body does not re-bind it)"""
    out = {}
    for nm, v in fr.locals.items():
        if nm in assigned:
            continue
        s = getattr(v, "sort", None)
        if isinstance(s, Opt):
            s = s.inner
        if isinstance(s, Ref):
            out[nm] = s.cls
    out.update(extra or {})
    return out


def collect_writes(eng, stmts, fr, assigned, ws, depth=0, subst=None):
    """syntactic over-approximation of the heap locations written by stmts"""
    for st in stmts:
        for n in ast.walk(st):
            if isinstance(n, ast.Attribute) and isinstance(n.ctx, ast.Store):
                if subst is None and expr_invariant(n.value, assigned):
                    ws.fine.append((n.value, n.attr))
                else:
                    ws.coarse_attrs.add(n.attr)
            elif isinstance(n, ast.Subscript) and isinstance(n.ctx, (ast.Store, ast.Del)):
                # d[k] = v  /  l[i] = v  / rec[1] = v
                scls = getattr(ws, "static", {}).get(n.value.id) if isinstance(n.value, ast.Name) and depth == 0 else None
                if subst is None and expr_invariant(n.value, assigned):
                    ws.fine_lists.append(n.value)
                elif scls is not None and isinstance(n.slice, ast.Constant) and (eng.spec.is_struct(scls) or eng.spec.is_record(scls)):
                    # constant-key store on a struct / record of statically known class: a field write, no list or dict is touched
                    ws.coarse_attrs.add(str(n.slice.value))
                else:
                    ws.coarse_lists = True
                    ws.coarse_maps = True
                    # record stores are fields named by the constant index
                    if isinstance(n.slice, ast.Constant):
                        ws.coarse_attrs.add(str(n.slice.value))
            elif isinstance(n, ast.For) and depth == 0 and eng.spec.iterator_models and isinstance(n.iter, ast.Call):
                # a nested loop over an iterator object moves its cursor (engine-level write, invisible in the syntax)
                for icls, (seqf, posf) in eng.spec.iterator_models.items():
                    ws.coarse_attrs.add("%s.%s" % (icls, posf))
            elif isinstance(n, ast.Call):
                if bm.is_logging_call(n):
                    continue
                f = n.func
                if isinstance(f, ast.Name) and f.id == "next" and eng.spec.iterator_models:
                    # next(it) on a modelled iterator advances its cursor field
                    for icls, (seqf, posf) in eng.spec.iterator_models.items():
                        ws.coarse_attrs.add("%s.%s" % (icls, posf))
                    continue
                if isinstance(f, ast.Attribute) and f.attr in LIST_MUTATORS | {"update", "setdefault", "add"}:
                    if subst is None and expr_invariant(f.value, assigned):
                        ws.fine_lists.append(f.value)
                    elif depth == 0 and local_container_writes(eng, fr, f.value, ws):
                        pass  # a local of declared container sort: only containers of that sort are affected
                    else:
                        ws.coarse_lists = True
                        ws.coarse_maps = True
                    continue
                collect_call_writes(eng, n, fr, assigned, ws, depth)


def local_container_writes(eng, fr, base, ws):
    """mutation of  <local>  or  <local>[key]  where the local has a declared container sort (local(...) clause): the write set is
    'every container of that sort' instead of 'every list and dict'"""
    c = fr.contract
    if c is None:
        return False

    def sort_of(e):
        if isinstance(e, ast.Name):
            return c.local_sorts.get(e.id)
        if isinstance(e, ast.Subscript):
            b = sort_of(e.value)
            if isinstance(b, MapOf):
                return ("mapval", b)
            if isinstance(b, ListOf):
                return b.elem
        return None

    s = sort_of(base)
    if isinstance(s, tuple) and s[0] == "mapval":
        ms = s[1]
        # d[k].append(x) on a defaultdict(list): may insert the key (dict of this sort changes) and appends to a value list
        ws.coarse_map_sorts[(ms.key.name, ms.val.name)] = ms
        if isinstance(ms.val, ListOf):
            if isinstance(base.value, ast.Name) and private_defaultdict_of_lists(fr, base.value.id):
                # every value list of this dict was created by its default factory inside this function: only lists allocated
                # after the function's entry can be affected
                ws.fresh_list_sorts[ms.val.elem.name] = ms.val.elem
            else:
                ws.coarse_list_sorts[ms.val.elem.name] = ms.val.elem
            return True
        return False
    if isinstance(s, ListOf):
        ws.coarse_list_sorts[s.elem.name] = s.elem
        return True
    if isinstance(s, MapOf):
        ws.coarse_map_sorts[(s.key.name, s.val.name)] = s
        return True
    return False


def private_defaultdict_of_lists(fr, name):
    """the local `name` is bound exactly once in the function, to defaultdict(list), is never stored into by d[k] = v, never passed to
    a call, returned or stored in an attribute: all its value lists come from the default factory (fresh lists)"""
    fn = fr.func
    if fn is None:
        return False
    binds = 0
    for n in ast.walk(fn):
        if isinstance(n, ast.Assign):
            for t in n.targets:
                if isinstance(t, ast.Name) and t.id == name:
                    binds += 1
                    v = n.value
                    if not (isinstance(v, ast.Call) and isinstance(v.func, ast.Name) and v.func.id == "defaultdict" and len(v.args) == 1
                            and isinstance(v.args[0], ast.Name) and v.args[0].id == "list"):
                        return False
                if isinstance(t, ast.Subscript) and isinstance(t.value, ast.Name) and t.value.id == name:
                    return False
                if isinstance(n.value, ast.Name) and n.value.id == name:
                    return False  # aliased
        elif isinstance(n, (ast.AugAssign, ast.AnnAssign)) and isinstance(getattr(n, "target", None), ast.Name) and n.target.id == name:
            return False
        elif isinstance(n, ast.Call):
            for a in list(n.args) + [k.value for k in n.keywords]:
                if isinstance(a, ast.Name) and a.id == name:
                    return False
        elif isinstance(n, ast.Return) and isinstance(n.value, ast.Name) and n.value.id == name:
            return False
    return binds == 1


def contract_static_sort(eng, c, node):
    """static sort of a modifies-expression of contract c (parameter / attribute chain / subscript), or None when it cannot be told"""
    if isinstance(node, ast.Name):
        s = c.param_sorts.get(node.id)
        if s is None and node.id == "self":
            q = c.qual.split("::")[-1].split("#")[0]
            if "." in q:
                s = Ref(c.opts.get("self_class", q.split(".")[0]))
        return s if isinstance(s, Sort) else None
    if isinstance(node, ast.Attribute):
        b = contract_static_sort(eng, c, node.value)
        if isinstance(b, Opt):
            b = b.inner
        if isinstance(b, Ref):
            fi = eng.field_info(b.cls, node.attr)
            return fi[1] if fi is not None else None
        return None
    if isinstance(node, ast.Subscript):
        b = contract_static_sort(eng, c, node.value)
        if isinstance(b, Opt):
            b = b.inner
        if isinstance(b, MapOf):
            return b.val
        if isinstance(b, ListOf):
            return b.elem
        if isinstance(b, Tup) and isinstance(node.slice, ast.Constant) and isinstance(node.slice.value, int):
            return b.items[node.slice.value]
        return None
    if isinstance(node, ast.Call) and isinstance(node.func, ast.Name) and node.func.id == "old" and node.args:
        return contract_static_sort(eng, c, node.args[0])
    return None


def subst_actuals(c, call, node, assigned):
    """rewrite a callee modifies-expression (attribute chain rooted at a parameter) into the caller's terms when the actual
    argument is a loop-invariant expression; None when that is not possible"""
    chain = []
    n = node
    while isinstance(n, ast.Attribute):
        chain.append(n.attr)
        n = n.value
    if not isinstance(n, ast.Name):
        return None
    params = [a.arg for a in c.node.args.posonlyargs + c.node.args.args]
    actual = None
    f = call.func
    is_method = isinstance(f, ast.Attribute) and params and params[0] == "self"
    if params and params[0] == "self" and not is_method:
        return None  # a method contract matched by name only (the call is a plain function call): no positional correspondence
    if not (params and params[0] == "self") and isinstance(f, ast.Attribute) and not isinstance(f.value, ast.Name):
        return None
    if n.id == "self" and is_method:
        actual = f.value
    elif n.id in params:
        i = params.index(n.id) - (1 if is_method else 0)
        if 0 <= i < len(call.args) and not any(isinstance(a, ast.Starred) for a in call.args):
            actual = call.args[i]
        else:
            for k in call.keywords:
                if k.arg == n.id:
                    actual = k.value
    if actual is None or not expr_invariant(actual, assigned):
        return None
    out = actual
    for a in reversed(chain):
        out = ast.Attribute(value=out, attr=a, ctx=ast.Load())
    return ast.fix_missing_locations(ast.copy_location(out, call))


def add_contract_mod(eng, c, m, ws, call=None, assigned=None):
    """one modifies entry of a callee contract -> loop write set, as precisely as the entry can be typed statically"""
    if call is not None and m[0] in ("list", "map"):
        e = subst_actuals(c, call, m[1], assigned)
        if e is not None:
            ws.fine_lists.append(e)  # the caller-side expression of that very list / dict (evaluated when the loop is havoced)
            return
    if call is not None and m[0] not in ("all", "listsof", "list", "map"):
        e = subst_actuals(c, call, m[0], assigned)
        if e is not None:
            ws.fine.append((e, m[1]))
            return
    if m[0] == "all":
        ws.coarse_attrs.add(m[1])  # "Class.field" (qualified) or "field" (every class)
        return
    if m[0] == "module":
        ws.module_vars.add((m[1], m[2]))
        return
    if m[0] == "mapsof":
        ms_ = eval(compile(ast.Expression(m[1]), "<sort>", "eval"), c.ns)
        ws.coarse_map_sorts[(ms_.key.name, ms_.val.name)] = ms_
        return
    if m[0] == "listsof":
        es = eval(compile(ast.Expression(m[1]), "<sort>", "eval"), c.ns)
        ws.coarse_list_sorts[es.name] = es
        return
    if m[0] == "list":
        s = contract_static_sort(eng, c, m[1])
        if isinstance(s, Opt):
            s = s.inner
        if isinstance(s, ListOf):
            ws.coarse_list_sorts[s.elem.name] = s.elem
        else:
            ws.coarse_lists = True
        return
    if m[0] == "map":
        s = contract_static_sort(eng, c, m[1])
        if isinstance(s, Opt):
            s = s.inner
        if isinstance(s, MapOf):
            ws.coarse_map_sorts[(s.key.name, s.val.name)] = s
        else:
            ws.coarse_maps = True
        return
    s = contract_static_sort(eng, c, m[0])
    if isinstance(s, Opt):
        s = s.inner
    if isinstance(s, Ref) and eng.field_info(s.cls, m[1]) is not None:
        ws.coarse_attrs.add("%s.%s" % (s.cls, m[1]))
    else:
        ws.coarse_attrs.add(m[1])


def collect_call_writes(eng, call, fr, assigned, ws, depth):
    """writes of a callee: its contract's modifies, or (inlined) its body's writes, else coarse everything"""
    name = None
    f = call.func
    if isinstance(f, ast.Name):
        name = f.id
    elif isinstance(f, ast.Attribute):
        name = f.attr
    if name in bm.BUILTINS or name in bm.SPEC_FORMS:
        return
    cands = eng.spec.contracts_named(name)
    # receiver of statically known class (A3): only contracts of classes related to it by inheritance can be the callee
    rcls = None
    if isinstance(f, ast.Attribute) and isinstance(f.value, ast.Name):
        rcls = getattr(ws, "static", {}).get(f.value.id)
    if rcls is not None and depth == 0:
        def related(c):
            q = c.qual.split("::")[-1]
            if "." not in q:
                return False  # a module-level function is not a method of the receiver
            cn = q.split(".")[0]
            return eng.repo.is_subclass(rcls, cn) or eng.repo.is_subclass(cn, rcls)
        cands = [c for c in cands if related(c)]
    found = False
    for c in cands:
        found = True
        # ghost code attached to the callee runs in the caller at every call: its assignments are writes of this loop
        for body in getattr(c, "ghost_calls", []):
            for gst in body:
                for gn in ast.walk(gst):
                    if isinstance(gn, ast.Attribute) and isinstance(gn.ctx, ast.Store):
                        ws.coarse_attrs.add(gn.attr)
                    elif isinstance(gn, ast.Subscript) and isinstance(gn.ctx, ast.Store):
                        ws.coarse_maps = True
        for m in c.modifies:
            add_contract_mod(eng, c, m, ws, call if depth == 0 else None, assigned)
        for r in c.raises:
            for m in r.get("modifies", []):
                add_contract_mod(eng, c, m, ws, call if depth == 0 else None, assigned)
    # inlinable repo functions with that name
    for qual, (mi, ci, node) in eng.spec.inline_candidates(eng.repo, name):
        if rcls is not None and depth == 0 and not (ci is not None and (eng.repo.is_subclass(rcls, ci.name) or eng.repo.is_subclass(ci.name, rcls))):
            continue
        found = True
        if depth < 4:
            collect_writes(eng, node.body, fr, set(), ws, depth + 1, subst=True)
    if not found:
        # unknown callee: properties / externals that the engine will reject anyway or pure builtins
        pass


def snapshot_heap(eng):
    return dict(eng.path.heap)


def havoc_writes(eng, ws, fr, ordinal):
    p = eng.path
    # fine-grained attribute stores
    done = set()
    for base_ast, attr in ws.fine:
        if attr in ws.coarse_attrs:
            continue
        try:
            saved = eng.spec_mode
            eng.spec_mode = True
            base = eng.eval(base_ast, fr)
        finally:
            eng.spec_mode = saved
        if isinstance(base, SV) and isinstance(base.sort, Opt):
            base = base.t[1]
        if not (isinstance(base, SV) and isinstance(base.sort, Ref)):
            ws.coarse_attrs.add(attr)
            continue
        fi = eng.field_info(base.sort.cls, attr)
        if fi is None:
            if eng.repo.lookup_setter(base.sort.cls, attr):
                ws.coarse_attrs.add("_" + attr)
                continue
            raise EngineLimit("loop writes unknown field %s.%s" % (base.sort.cls, attr))
        owner, fs = fi
        key = (owner, attr, base.t.get_id() if hasattr(base.t, "get_id") else base.t)
        if key in done:
            continue
        done.add(key)
        eng.havoc_field_at(base.t, owner, attr, fs, "L%d" % ordinal)
    for mod, var in sorted(ws.module_vars):
        sort = eng.spec.module_var_sort(mod, var) or (ATOM if (mod, var) == ("datetime", "datetime") else None)
        if sort is not None:
            eng.havoc_field_at(z3.IntVal(0), "$mod:" + mod, var, sort, "L%d" % ordinal)
    unq = set(a for a in ws.coarse_attrs if isinstance(a, str) and "." not in a)
    for attr in ws.coarse_attrs:
        if not isinstance(attr, str):
            continue
        if "." in attr:
            cls, fld = attr.split(".")
            if fld in unq:
                continue
            fi = eng.field_info(cls, fld)
            if fi is not None:
                eng.havoc_field_all(fi[0], fld, fi[1], "L%d" % ordinal)
            continue
        for owner, fs in eng.spec.fields_named(attr):
            eng.havoc_field_all(owner, attr, fs, "L%d" % ordinal)
    if ws.coarse_lists:
        for k in list(p.heap):
            if k[0] == "$List":
                arr = p.heap[k]
                p.heap[k] = z3.Const(fresh_name("L%d_%s" % (ordinal, "_".join(str(x) for x in k[1:]))), arr.sort())
        p.ghost["coarse_list_havoc"] = True
    else:
        for es in ws.fresh_list_sorts.values():
            if es.name in ws.coarse_list_sorts:
                continue
            eng.heap_arrays(("$List", es.name, "len"), INT)
            eng.list_items(z3.IntVal(0), es)
            for k in list(p.heap):
                if k[0] == "$List" and k[1] == es.name:
                    arr = p.heap[k]
                    new = z3.Const(fresh_name("L%d_%s" % (ordinal, "_".join(str(x) for x in k[1:]))), arr.sort())
                    r = bvar("fr")
                    p.assume(z3.ForAll([r], z3.Implies(r <= z3.Int("alloc0"), z3.Select(new, r) == z3.Select(arr, r)), patterns=[z3.Select(new, r)]), check=False)
                    p.heap[k] = new
        for es in ws.coarse_list_sorts.values():  # materialise the (lazily created) arrays first, else the havoc would miss them
            eng.heap_arrays(("$List", es.name, "len"), INT)
            eng.list_items(z3.IntVal(0), es)
        for k in list(p.heap):
            if k[0] == "$List" and k[1] in ws.coarse_list_sorts:
                arr = p.heap[k]
                p.heap[k] = z3.Const(fresh_name("L%d_%s" % (ordinal, "_".join(str(x) for x in k[1:]))), arr.sort())
        for lst_ast in ws.fine_lists:
            saved = eng.spec_mode
            eng.spec_mode = True
            try:
                lv = eng.eval(lst_ast, fr)
            finally:
                eng.spec_mode = saved
            if isinstance(lv, SV) and isinstance(lv.sort, Opt):
                lv = lv.t[1]
            if isinstance(lv, PyVal):
                raise EngineLimit("loop mutates a python-level list %s: declare local(...) sort in the contract" % ast.dump(lst_ast)[:60])
            if isinstance(lv.sort, ListOf):
                elem = lv.sort.elem
                n = z3.Int(fresh_name("L%d_len" % ordinal))
                p.assume(n >= 0, check=False)
                arrs = [z3.Const(fresh_name("L%d_items" % ordinal), z3.ArraySort(z3.IntSort(), zs)) for zs in z3sorts(elem)]
                eng.list_set_all(lv.t, elem, n, arrs)
            elif isinstance(lv.sort, MapOf):
                from . import containers as ct

                ct.map_havoc(eng, lv, "L%d" % ordinal)
            elif isinstance(lv.sort, Ref):
                # record / struct subscript stores: havoc all fields of that object
                for fname, (owner, fs) in eng.spec.all_fields(eng.repo, lv.sort.cls).items():
                    eng.havoc_field_at(lv.t, owner, fname, fs, "L%d" % ordinal)
            else:
                raise EngineLimit("loop mutates %s" % lv.sort)
    if ws.coarse_maps:
        from . import containers as ct

        ct.maps_havoc_all(eng, "L%d" % ordinal)
    elif ws.coarse_map_sorts:
        from . import containers as ct

        for ms in ws.coarse_map_sorts.values():
            ct.maps_havoc_sort(eng, ms, "L%d" % ordinal)


def havoc_locals(eng, fr, names, ordinal, declared):
    for nm in sorted(names):
        if nm in declared:
            fr.locals[nm] = fresh_value(declared[nm], "L%d_%s" % (ordinal, nm))
            eng.wf_assume(fr.locals[nm])
            continue
        cur = fr.locals.get(nm)
        if cur is None:
            continue
        if isinstance(cur, PyVal):
            if cur.kind in ("list", "set", "dictlit", "tuple") or cur.kind == "repeat":
                raise EngineLimit("loop assigns python-level container %s: declare local(%s=...) in the contract" % (nm, nm))
            fr.locals.pop(nm)
            continue
        s = cur.sort
        if s == NONE:
            fr.locals.pop(nm)  # becomes unknown: must be declared to be used
            continue
        if s == INT and isinstance(cur.t, (int, bool)):
            s = INT
        fr.locals[nm] = fresh_value(s, "L%d_%s" % (ordinal, nm))
        eng.wf_assume(fr.locals[nm])


def check_invariants(eng, c, ordinal, fr, kind, line):
    invs = c.invariants.get(ordinal, []) if c else []
    from . import contracts as C

    for label, node in invs:
        g = C.eval_clause(eng, c, node, fr, fr.spec_frame_extra())
        eng.oblige("%s/loop%d:%s:%s" % (eng.cur_short, ordinal, kind, label), zb(g), "loop-" + kind, line)


def assume_invariants(eng, c, ordinal, fr):
    invs = c.invariants.get(ordinal, []) if c else []
    from . import contracts as C

    for label, node in invs:
        g = C.eval_clause(eng, c, node, fr, fr.spec_frame_extra())
        eng.path.assume(zb(g), check=False)
    # one feasibility check for the lot
    if eng.prune and eng.path.solver.check() == z3.unsat:
        raise E.Infeasible()


def symbolic_for(eng, st, fr, it, ordinal):
    c = fr.contract if eng.depth == 0 or fr.contract is not None else None
    c = fr.contract
    if c is None or ordinal not in c.invariants:
        raise EngineLimit("loop %d at line %d iterates a symbolic sequence and has no invariant" % (ordinal, st.lineno))
    p = eng.path
    src = make_iter_source(eng, it, st.lineno)
    assigned = bm.assigned_names(st.body) | bm.assigned_names([ast.Assign(targets=[st.target], value=ast.Constant(0), lineno=st.lineno)])
    ivar = "_i%d" % ordinal
    n = src.length()
    fr.locals["_n%d" % ordinal] = SV(INT, n)
    if isinstance(src, ListSource):
        # spec-visible name of the iterated sequence (for snapshots like iter(list(...)) that the code does not name)
        fr.locals["_seq%d" % ordinal] = src.lv
    if isinstance(src, IterModelSource):
        fr.locals["_it%d" % ordinal] = src.it  # the (often anonymous) iterator object the loop consumes
    # establish
    fr.locals[ivar] = SV(INT, 0)
    fr.locals["_i"] = fr.locals[ivar]
    check_invariants(eng, c, ordinal, fr, "init", st.lineno)
    # havoc
    ws = WriteSet()
    extra = {}
    if isinstance(st.target, ast.Name) and st.target.id not in bm.assigned_names(st.body):
        try:
            es = src.element(z3.IntVal(0)).sort
            if isinstance(es, Opt):
                es = es.inner
            if isinstance(es, Ref):
                extra[st.target.id] = es.cls
        except Exception:
            pass
    ws.static = static_classes(eng, fr, assigned, extra)
    collect_writes(eng, st.body, fr, assigned, ws)
    src.protect(ws)
    havoc_writes(eng, ws, fr, ordinal)
    havoc_locals(eng, fr, assigned - {ivar}, ordinal, c.local_sorts)
    i = z3.Int(fresh_name("L%d_i" % ordinal))
    fr.locals[ivar] = SV(INT, i)
    fr.locals["_i"] = fr.locals[ivar]
    p.assume(z3.And(i >= 0, i <= n), check=False)
    if hasattr(src, "at_head"):
        src.at_head(i)
    assume_invariants(eng, c, ordinal, fr)
    ch = p.choose(2, "loop%d" % ordinal)
    if ch == 0:
        # one arbitrary iteration
        p.assume(i < n)
        x = src.element(i)
        eng.assign(st.target, x, fr, st.lineno)
        try:
            eng.exec_block(st.body, fr)
        except E.ContinueEx:
            pass
        except E.BreakEx:
            # leave the loop from here: continue after it with the break-state
            fr.locals.pop("_i", None)
            return
        src.check_unchanged(n, st.lineno)
        fr.locals[ivar] = SV(INT, i + 1)
        fr.locals["_i"] = fr.locals[ivar]
        check_invariants(eng, c, ordinal, fr, "preserve", st.lineno)
        raise E.PathEnd()
    # exit: i == n
    p.assume(i == n)
    if hasattr(src, "at_exit"):
        src.at_exit()
    check_loop_exit(eng, c, ordinal, fr, st.lineno)
    if st.orelse:
        eng.exec_block(st.orelse, fr)


def symbolic_while(eng, st, fr, ordinal):
    c = fr.contract
    if c is None or ordinal not in c.invariants:
        # try bounded concrete execution (conditions decided concretely, e.g. constant loops)
        for _ in range(2000):
            t = eng.truth(eng.eval(st.test, fr))
            if not isinstance(t, bool):
                raise EngineLimit("while loop %d at line %d needs an invariant" % (ordinal, st.lineno))
            if not t:
                return
            try:
                eng.exec_block(st.body, fr)
            except E.BreakEx:
                return
            except E.ContinueEx:
                continue
        raise EngineLimit("while loop did not terminate concretely")
    p = eng.path
    assigned = bm.assigned_names(st.body)
    check_invariants(eng, c, ordinal, fr, "init", st.lineno)
    ws = WriteSet()
    ws.static = static_classes(eng, fr, assigned)
    collect_writes(eng, st.body, fr, assigned, ws)
    havoc_writes(eng, ws, fr, ordinal)
    havoc_locals(eng, fr, assigned, ordinal, c.local_sorts)
    assume_invariants(eng, c, ordinal, fr)
    dec = c.decreases.get(ordinal)
    from . import contracts as C

    d0 = C.eval_clause(eng, c, dec, fr, fr.spec_frame_extra(), as_bool=False) if dec is not None else None
    t = eng.truth(eng.eval(st.test, fr))
    if eng.branch(t, "while%d" % ordinal):
        try:
            eng.exec_block(st.body, fr)
        except E.ContinueEx:
            pass
        except E.BreakEx:
            return
        check_invariants(eng, c, ordinal, fr, "preserve", st.lineno)
        if d0 is not None:
            d1 = C.eval_clause(eng, c, dec, fr, fr.spec_frame_extra(), as_bool=False)
            eng.oblige("%s/loop%d:decreases" % (eng.cur_short, ordinal), z3.And(zreal(d0.t) >= 0, zreal(d1.t) <= zreal(d0.t) - 1) if d0.sort == INT else z3.And(zreal(d0.t) >= 0, zreal(d1.t) < zreal(d0.t)), "loop-decreases", st.lineno)
        raise E.PathEnd()
    check_loop_exit(eng, c, ordinal, fr, st.lineno)
    if st.orelse:
        eng.exec_block(st.orelse, fr)


def check_loop_exit(eng, c, ordinal, fr, line):
    """loop_exit(ordinal, label, expr): obligations in the state in which the loop is left normally (invariant and negated guard hold)"""
    from . import contracts as C

    for label, node in (c.loop_exits.get(ordinal, []) if c else []):
        g = C.eval_clause(eng, c, node, fr, fr.spec_frame_extra())
        eng.oblige("%s/loop%d:exit:%s" % (eng.cur_short, ordinal, label), zb(g), "loop-exit", line)


# --------------------------------------------------------------------------- iteration sources
class ListSource:
    def __init__(self, eng, lv):
        self.eng = eng
        self.lv = lv
        self.elem = lv.sort.elem
        self.n0 = eng.list_len(lv.t, self.elem)
        self.items0 = eng.list_items(lv.t, self.elem)

    def length(self):
        return self.n0

    def element(self, i):
        # python iterates the live list; we require (and check) that it is not changed by the body
        v = unflatten(self.elem, [z3.Select(a, i) for a in self.items0])
        self.eng.wf_assume(v)
        return v

    def protect(self, ws):
        pass

    def check_unchanged(self, n, line):
        eng = self.eng
        cur = eng.list_len(self.lv.t, self.elem)
        eng.oblige("%s/iterated-list-not-resized@%d" % (eng.cur_short, line), cur == self.n0, "safety", line)


class IterModelSource:
    """for x in <iterator object with iterator_model>: consumes seq[pos0:], the cursor follows the loop"""

    def __init__(self, eng, it):
        self.eng = eng
        self.it = it
        seqf, posf = eng.spec.iterator_models[it.sort.cls]
        self.seqf, self.posf = seqf, posf
        self.so, self.ss = eng.field_info(it.sort.cls, seqf)
        self.po, self.ps = eng.field_info(it.sort.cls, posf)
        self.seq = eng.read_field(it.t, self.so, seqf, self.ss)
        self.pos0 = zr(eng.read_field(it.t, self.po, posf, self.ps).t)
        self.n_all = eng.list_len(self.seq.t, self.ss.elem)
        self.items0 = eng.list_items(self.seq.t, self.ss.elem)

    def length(self):
        return z3.If(self.n_all - self.pos0 > 0, self.n_all - self.pos0, 0)

    def element(self, i):
        v = unflatten(self.ss.elem, [z3.Select(a, self.pos0 + i) for a in self.items0])
        self.eng.wf_assume(v)
        # the cursor has moved past this element when the body runs
        self.eng.write_field(self.it.t, self.po, self.posf, self.ps, SV(INT, self.pos0 + i + 1))
        return v

    def protect(self, ws):
        pass

    def at_head(self, i):
        # at the head of iteration i the iterator has handed out i elements
        self.eng.write_field(self.it.t, self.po, self.posf, self.ps, SV(INT, self.pos0 + i))

    def check_unchanged(self, n, line):
        eng = self.eng
        cur = eng.list_len(eng.read_field(self.it.t, self.so, self.seqf, self.ss).t, self.ss.elem)
        eng.oblige("%s/iterated-sequence-not-resized@%d" % (eng.cur_short, line), cur == self.n_all, "safety", line)

    def at_exit(self):
        # normal exhaustion: the cursor is at the end
        self.eng.write_field(self.it.t, self.po, self.posf, self.ps, SV(INT, z3.If(self.n_all > self.pos0, self.n_all, self.pos0)))


class RangeSource:
    def __init__(self, eng, args):
        self.eng = eng
        a = [zr(x.t) for x in args]
        if len(a) == 1:
            self.lo, self.hi, self.step = z3.IntVal(0), a[0], z3.IntVal(1)
        elif len(a) == 2:
            self.lo, self.hi, self.step = a[0], a[1], z3.IntVal(1)
        else:
            self.lo, self.hi, self.step = a
            if eng.path.feasible_with(self.step <= 0):
                raise EngineLimit("range with possibly non-positive step")

    def length(self):
        d = self.hi - self.lo
        return z3.If(d <= 0, 0, (d + self.step - 1) / self.step)

    def element(self, i):
        return SV(INT, self.lo + i * self.step)

    def protect(self, ws):
        pass

    def check_unchanged(self, n, line):
        pass


class ZipSource:
    def __init__(self, eng, parts):
        self.eng = eng
        self.parts = parts

    def length(self):
        n = self.parts[0].length()
        for p in self.parts[1:]:
            m = p.length()
            n = z3.If(m < n, m, n)
        return n

    def element(self, i):
        return bm.make_tuple([p.element(i) for p in self.parts])

    def protect(self, ws):
        pass

    def check_unchanged(self, n, line):
        for p in self.parts:
            p.check_unchanged(n, line)


class EnumSource:
    def __init__(self, eng, inner):
        self.inner = inner

    def length(self):
        return self.inner.length()

    def element(self, i):
        return bm.make_tuple([SV(INT, i), self.inner.element(i)])

    def protect(self, ws):
        pass

    def check_unchanged(self, n, line):
        self.inner.check_unchanged(n, line)


def make_iter_source(eng, it, line):
    if isinstance(it, PyVal) and it.kind == "iter":
        it = it.of
    if isinstance(it, SV) and isinstance(it.sort, Opt):
        it = eng.deref(it, "TypeError", line)
    if isinstance(it, SV) and isinstance(it.sort, ListOf):
        return ListSource(eng, it)
    if isinstance(it, PyVal) and it.kind in ("list", "tuple"):
        # concrete list inside a zip with symbolic partner
        elem = None
        raise EngineLimit("mixed concrete/symbolic iteration")
    if isinstance(it, PyVal) and it.kind == "range":
        return RangeSource(eng, it.args)
    if isinstance(it, PyVal) and it.kind == "zip":
        return ZipSource(eng, [make_iter_source(eng, p, line) for p in it.parts])
    if isinstance(it, PyVal) and it.kind == "enumerate":
        return EnumSource(eng, make_iter_source(eng, it.of, line))
    if isinstance(it, PyVal) and it.kind == "mapview":
        from . import containers as ct

        return ct.MapViewSource(eng, it)
    if isinstance(it, SV) and isinstance(it.sort, MapOf):
        from . import containers as ct

        return ct.MapViewSource(eng, PyVal("mapview", of=it, what="keys"))
    if isinstance(it, SV) and isinstance(it.sort, Ref) and it.sort.cls in eng.spec.iterator_models:
        return IterModelSource(eng, it)
    if isinstance(it, SV) and isinstance(it.sort, Ref):
        # object with __iter__ returning iter(list(...)): inline it
        mem = eng.repo.lookup_member(it.sort.cls, "__iter__")
        if mem:
            kind, ci, n = mem
            r = eng.call_function(ci.module, ci, n, [it], {}, line, "%s::%s.__iter__" % (ci.module.relpath, ci.name))
            return make_iter_source(eng, r, line)
    raise EngineLimit("iteration over %s (line %s)" % (it, line))
