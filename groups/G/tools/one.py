"""developer tool (path independent): generate + discharge the obligations of the contracts whose qualified name contains argv[1]
   env: REPO, TO (ms), SECS (alarm for generation profile), MAXP, DUMP=substring (write non-unsat VCs to /tmp/dumpG_N.smt2), PROFILE=1"""
import sys, time, os, signal
HERE = os.path.dirname(os.path.dirname(os.path.abspath(__file__)))
sys.path.insert(0, HERE)
from pyvc.repo import Repo; from pyvc.engine import Engine; from pyvc.contracts import Spec, verify_function; from pyvc import solve
import cProfile, pstats
os.environ.setdefault("PYVC_JOBS", "4")
repo = Repo(os.environ.get('REPO', '/repo')); spec = Spec(); spec.load_dir(os.path.join(HERE, 'contracts'), {'PRICES': [1], 'BETDAQ_PRICES': [1]})
eng = Engine(repo, spec)
import json
kf = json.load(open(os.path.join(HERE, 'known_findings.json')))
eng.known_regions = {f["obligation"]: f for f in kf.get("findings", []) if f.get("region")}
cs = [c for q, c in sorted(spec.contracts.items()) if sys.argv[1] in q and not c.trusted]
for c in cs:
    t = time.time()
    pr = cProfile.Profile()
    if os.environ.get('PROFILE'):
        def onalarm(*a):
            pr.disable(); pstats.Stats(pr).sort_stats('cumulative').print_stats(30); os._exit(0)
        signal.signal(signal.SIGALRM, onalarm); signal.alarm(int(os.environ.get('SECS', '60')))
        pr.enable()
    r = verify_function(eng, c, max_paths=int(os.environ.get('MAXP', '3000')))
    if os.environ.get('PROFILE'):
        pr.disable(); signal.alarm(0)
    print("==", c.qual, r.status, r.limit, "paths", r.paths, "obls", len(r.obligations), "gen %.1fs" % (time.time() - t), flush=True)
    inf = getattr(eng, "infeasible_normal_outcomes", [])
    if inf:
        from collections import Counter
        print("   NOTE infeasible normal outcomes of callee contracts:", dict(Counter((b, l) for a, b, l in inf)))
        eng.infeasible_normal_outcomes = []
    if os.environ.get('GENONLY'):
        continue
    obs = [o for o in r.obligations if o.kind != 'canary']
    if len(sys.argv) > 2:
        obs = [o for o in obs if sys.argv[2] in o.name]
    t = time.time()
    res = solve.discharge(obs, int(os.environ.get('TO', '10000')), fallback=False)
    n = 0
    agg = {}
    for x in res:
        ob = x['obligation']
        a = agg.setdefault(ob.name, [0, 0.0, set()])
        a[0] += 1; a[1] = max(a[1], x['time']); a[2].add(x['verdict'])
        if x['verdict'] != 'unsat' and os.environ.get('DUMP') is not None and os.environ['DUMP'] in ob.name and n < int(os.environ.get('N', '3')):
            p = '/tmp/dumpG_%d.smt2' % n; n += 1
            open(p, 'w').write("(set-logic ALL)\n" + solve.to_smt2(ob))
            print("   dumped", ob.name, ob.path, x['verdict'], p, ob.extra['labels'][-8:])
    for name, (k, tm, vs) in sorted(agg.items()):
        flag = "" if vs == {"unsat"} or (vs == {"sat"} and name.endswith("#known-region")) else "   <<<<<<"
        print("   %-95s x%-3d max %.2fs %s%s" % (name, k, tm, ",".join(sorted(vs)), flag))
    can = [o for o in r.obligations if o.kind == 'canary']
    print("   solve %.1fs, canaries %d" % (time.time() - t, len(can)))
