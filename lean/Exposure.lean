import Mathlib
open Finset BigOperators

/-- L1, lower bound: no fill-subset does better than taking every negative term. -/
theorem L1_lower {ι : Type*} [DecidableEq ι] (s : Finset ι) (c : ι → ℝ)
    (S : Finset ι) (hS : S ⊆ s) : ∑ i ∈ s, min 0 (c i) ≤ ∑ i ∈ S, c i := by
  have h1 : ∑ i ∈ s, min 0 (c i) = ∑ i ∈ s \ S, min 0 (c i) + ∑ i ∈ S, min 0 (c i) :=
    (Finset.sum_sdiff hS).symm
  have h2 : ∑ i ∈ s \ S, min 0 (c i) ≤ 0 := Finset.sum_nonpos (fun i _ => min_le_left _ _)
  have h3 : ∑ i ∈ S, min 0 (c i) ≤ ∑ i ∈ S, c i :=
    Finset.sum_le_sum (fun i _ => min_le_right _ _)
  linarith

/-- L1, attained by the subset of negative terms. -/
theorem L1_attained {ι : Type*} (s : Finset ι) (c : ι → ℝ) :
    ∃ S ⊆ s, ∑ i ∈ S, c i = ∑ i ∈ s, min 0 (c i) := by
  classical
  refine ⟨s.filter (fun i => c i < 0), Finset.filter_subset _ _, ?_⟩
  rw [Finset.sum_filter]
  apply Finset.sum_congr rfl
  intro i _
  by_cases h : c i < 0
  · simp [h, min_eq_right (le_of_lt h)]
  · simp [h, min_eq_left (not_lt.mp h)]

/-- L2: in an ascending list the first k elements have the least sum among
    all sublists of length k (the prefix itself is such a sublist). -/
theorem L2_lower (l l' : List ℝ) (hs : l.Pairwise (· ≤ ·)) (h : l'.Sublist l) :
    (l.take l'.length).sum ≤ l'.sum := by
  induction h with
  | slnil => simp
  | @cons l₁ l₂ a h ih =>
    have hs' : l₂.Pairwise (· ≤ ·) := (List.pairwise_cons.mp hs).2
    have ih' := ih hs'
    cases hl : l₁.length with
    | zero =>
      have : l₁ = [] := List.length_eq_zero_iff.mp hl
      subst this; simp
    | succ m =>
      rw [hl] at ih'
      have hlen : m + 1 ≤ l₂.length := hl ▸ h.length_le
      have hm : m < l₂.length := by omega
      have htake : l₂.take (m+1) = l₂.take m ++ [l₂[m]] := by
        rw [List.take_succ_eq_append_getElem hm]
      have ha : a ≤ l₂[m] := (List.pairwise_cons.mp hs).1 _ (List.getElem_mem hm)
      simp only [List.take_succ_cons, List.sum_cons]
      rw [htake, List.sum_append] at ih'
      simp at ih'
      linarith
  | @cons_cons l₁ l₂ a h ih =>
    have hs' : l₂.Pairwise (· ≤ ·) := (List.pairwise_cons.mp hs).2
    have ih' := ih hs'
    simp only [List.length_cons, List.take_succ_cons, List.sum_cons]
    linarith
