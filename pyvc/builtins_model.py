"""Semantics of Python operators / builtins used by the accepted subset (see DESIGN section 3)."""
import ast
from fractions import Fraction

import z3

from .values import *  # noqa

BUILTINS = {
    "len", "min", "max", "round", "abs", "float", "int", "str", "bool", "isinstance", "list", "tuple",
    "set", "dict", "sorted", "sum", "zip", "range", "enumerate", "iter", "next", "hasattr", "getattr",
    "super", "print", "any", "all", "reversed", "type", "id", "divmod",
}
SPEC_FORMS = {"is_int", "forall", "exists", "forall_int", "exists_int", "sum_", "old", "implies", "iff", "let", "fresh"}


# --------------------------------------------------------------------------- logic
def and_(*xs):
    out = []
    for x in xs:
        if x is True:
            continue
        if x is False:
            return False
        out.append(x)
    if not out:
        return True
    if len(out) == 1:
        return out[0]
    return z3.And(*out)


def or_(*xs):
    out = []
    for x in xs:
        if x is False:
            continue
        if x is True:
            return True
        out.append(x)
    if not out:
        return False
    if len(out) == 1:
        return out[0]
    return z3.Or(*out)


def not_(x):
    if isinstance(x, bool):
        return not x
    return z3.Not(x)


def implies_(a, b):
    return or_(not_(a), b)


def const_value(c):
    if c is None:
        return NONE_V
    if isinstance(c, bool):
        return SV(BOOL, c)
    if isinstance(c, int):
        return SV(INT, c)
    if isinstance(c, float):
        return SV(REAL, frac(c))
    if isinstance(c, Fraction):
        return SV(REAL, c)
    if isinstance(c, str):
        return SV(ATOM, Atom("str:" + c))
    if c is Ellipsis:
        return NONE_V
    raise EngineLimit("constant %r" % (c,))


def atom_str(v):
    """python string of a concrete string atom or None"""
    if isinstance(v, SV) and v.sort == ATOM and isinstance(v.t, Atom) and v.t.name.startswith("str:"):
        return v.t.name[4:]
    if isinstance(v, PyVal) and v.kind == "str":
        return v.s
    return None


def make_tuple(items):
    if all(isinstance(i, SV) for i in items):
        return SV(Tup(*[i.sort for i in items]), tuple(items))
    return PyVal("tuple", items=list(items))


def opaque_string(eng, prefix):
    return SV(ATOM, z3.Int(fresh_name("str_" + prefix)))


def str_format(eng, a, b):
    return opaque_string(eng, "fmt")


def is_logging_call(node):
    f = node.func
    if isinstance(f, ast.Attribute) and isinstance(f.value, ast.Name) and f.value.id == "logger":
        return True
    return False


def is_generator(node):
    for n in ast.walk(node):
        if isinstance(n, (ast.Yield, ast.YieldFrom)):
            return True
    return False


# --------------------------------------------------------------------------- ite (spec mode merge)
def ite(eng, c, a, b):
    if isinstance(c, bool):
        return a if c else b
    if isinstance(a, PyVal) or isinstance(b, PyVal):
        raise EngineLimit("ite over python-level values")
    if a.sort == NONE and b.sort == NONE:
        return NONE_V
    if a.sort in (REAL, INT) and b.sort in (REAL, INT):
        if a.sort == INT and b.sort == INT:
            return SV(INT, z3.If(c, zr(a.t), zr(b.t)))
        return SV(REAL, z3.If(c, zreal(a.t), zreal(b.t)))
    if a.sort == BOOL and b.sort == BOOL:
        return SV(BOOL, z3.If(c, zb(a.t), zb(b.t)))
    if a.sort == ATOM and b.sort == ATOM:
        return SV(ATOM, z3.If(c, za(a.t), za(b.t)))
    if isinstance(a.sort, (Ref, ListOf, MapOf)) and isinstance(b.sort, (Ref, ListOf, MapOf)):
        return SV(a.sort, z3.If(c, zr(a.t), zr(b.t)))
    if isinstance(a.sort, Tup) and isinstance(b.sort, Tup) and len(a.t) == len(b.t):
        return make_tuple([ite(eng, c, x, y) for x, y in zip(a.t, b.t)])
    # optional merge
    def as_opt(v, inner):
        if v.sort == NONE:
            return (True, None)
        if isinstance(v.sort, Opt):
            return v.t
        return (False, v)

    inner = None
    for v in (a, b):
        if isinstance(v.sort, Opt):
            inner = v.sort.inner
        elif v.sort != NONE:
            inner = inner or v.sort
    if inner is None:
        raise EngineLimit("ite sorts %s / %s" % (a.sort, b.sort))
    ia, va = as_opt(a, inner)
    ib, vb = as_opt(b, inner)
    if va is None:
        va = vb
    if vb is None:
        vb = va
    return SV(Opt(inner if not isinstance(va.sort, Opt) else va.sort), (z3.If(c, zb(ia), zb(ib)), ite(eng, c, va, vb)))


# --------------------------------------------------------------------------- arithmetic
def num_sort(a, b=None):
    if a.sort == REAL or (b is not None and b.sort == REAL):
        return REAL
    return INT


def as_num(eng, v, line):
    if isinstance(v, PyVal):
        raise PyRaise_("TypeError", line)
    if v.sort == BOOL:
        if isinstance(v.t, bool):
            return SV(INT, int(v.t))
        return SV(INT, z3.If(v.t, 1, 0))
    if v.sort in (REAL, INT):
        return v
    if v.sort in (DATETIME, TIMEDELTA):
        return v
    raise EngineLimit("arithmetic on %s (line %s)" % (v.sort, line))


def PyRaise_(exc, line):
    from .engine import PyRaise

    return PyRaise(exc, None, line)


DATETIME = REAL  # placeholders replaced below
TIMEDELTA = REAL


def arith(eng, opn, a, b, line):
    a = as_num(eng, a, line)
    if b is not None:
        b = as_num(eng, b, line)
    if opn == "neg":
        return SV(a.sort, -a.t, "dec" if a.aux == "dec" else None)
    x, y = a.t, b.t
    if opn in ("Mult", "Div") and not is_conc_num(x) and not is_conc_num(y):
        # non-linear: an integer operand that the path condition pins to one value is replaced by it
        if a.sort == INT:
            x = pinned_int(eng, x)
        if b.sort == INT:
            y = pinned_int(eng, y)
    conc = is_conc_num(x) and is_conc_num(y)
    s = num_sort(a, b)
    # a REAL that came out of decimal.Decimal(...) carries aux="dec" through + - * (Python refuses to mix Decimal and float,
    # so one tagged operand tags the result): // and % truncate for Decimal and floor for float
    dec = "dec" if s == REAL and (a.aux == "dec" or b.aux == "dec") else None
    if opn == "Add":
        return SV(s, x + y if conc else _z(x, s) + _z(y, s), dec)
    if opn == "Sub":
        return SV(s, x - y if conc else _z(x, s) - _z(y, s), dec)
    if opn == "Mult":
        return SV(s, x * y if conc else _z(x, s) * _z(y, s), dec)
    if opn == "Div":
        # ZeroDivisionError path
        if is_conc_num(y):
            if y == 0:
                raise PyRaise_("ZeroDivisionError", line)
        else:
            if not eng.spec_mode and eng.branch(_z(y, s) == 0, "div0"):
                raise PyRaise_("ZeroDivisionError", line)
        if conc:
            return SV(REAL, Fraction(x) / Fraction(y))
        return SV(REAL, zreal(x) / zreal(y))
    if opn == "FloorDiv":
        if s == INT:
            if conc:
                if y == 0:
                    raise PyRaise_("ZeroDivisionError", line)
                return SV(INT, x // y)
            if not eng.spec_mode and eng.branch(zr(y) == 0, "div0"):
                raise PyRaise_("ZeroDivisionError", line)
            return SV(INT, _int_floordiv(zr(x), zr(y)))
        return real_divmod(eng, x, y, dec, line)[0]
    if opn == "Mod":
        if s == INT:
            if conc:
                if y == 0:
                    raise PyRaise_("ZeroDivisionError", line)
                return SV(INT, x % y)
            if not eng.spec_mode and eng.branch(zr(y) == 0, "div0"):
                raise PyRaise_("ZeroDivisionError", line)
            return SV(INT, zr(x) - zr(y) * _int_floordiv(zr(x), zr(y)))
        return real_divmod(eng, x, y, dec, line)[1]
    if opn == "Pow":
        if is_conc_num(y) and isinstance(y, int) and 0 <= y <= 4:
            r = SV(INT, 1)
            for _ in range(y):
                r = arith(eng, "Mult", r, a, line)
            return r
        raise EngineLimit("power")
    raise EngineLimit("binary operator %s" % opn)


def _int_floordiv(x, y):
    """Python's floor division on integers: SMT-LIB div is the floor only for a positive divisor"""
    if z3.is_int_value(y):
        return x / y if y.as_long() > 0 else (-x) / (-y)
    return z3.If(y > 0, x / y, (-x) / (-y))


def real_divmod(eng, x, y, dec, line):
    """(x // y, x % y) on REAL operands.  float: floor, remainder with the divisor's sign; Decimal (aux == "dec"): truncation
    towards zero, remainder with the dividend's sign.  An untagged operand pair whose quotient is negative and inexact is
    ambiguous between the two and stops the engine (EngineLimit) rather than guessing."""
    if is_conc_num(x) and is_conc_num(y):
        if y == 0:
            raise PyRaise_("ZeroDivisionError", line)
        fx, fy = Fraction(x), Fraction(y)
        q = fx / fy
        import math

        if dec == "dec":
            qi = math.floor(q) if q >= 0 else -math.floor(-q)
        else:
            qi = math.floor(q)
            if q < 0 and qi != q:
                raise EngineLimit("// or % on a negative inexact real quotient of unknown kind (float floors, Decimal truncates)")
        return SV(REAL, Fraction(qi), dec), SV(REAL, fx - fy * qi, dec)
    zx, zy = zreal(x), zreal(y)
    if not eng.spec_mode and eng.branch(zy == 0, "div0"):
        raise PyRaise_("ZeroDivisionError", line)
    q = zx / zy
    fl = z3.ToReal(z3.ToInt(q))
    if dec == "dec":
        qi = z3.If(q >= 0, fl, -z3.ToReal(z3.ToInt(-q)))
    else:
        if not eng.spec_mode and eng.branch(z3.And(q < 0, fl != q), "floor-vs-trunc"):
            raise EngineLimit("// or % on a negative inexact real quotient of unknown kind (float floors, Decimal truncates)")
        qi = fl
    return SV(REAL, qi, dec), SV(REAL, zx - zy * qi, dec)


def pinned_int(eng, t):
    p = eng.path
    if p is None:
        return t
    try:
        if p.solver.check() != z3.sat:
            return t
        v = p.solver.model().eval(t, model_completion=True)
        if not z3.is_int_value(v):
            return t
        if p.feasible_with(t != v):
            return t
        return v.as_long()
    except z3.Z3Exception:
        return t


def _z(x, s):
    return zreal(x) if s == REAL else zr(x)


def order_compare(eng, opn, a, b, line):
    if isinstance(a, PyVal) or isinstance(b, PyVal):
        raise EngineLimit("ordering of python-level values (line %s)" % line)
    if isinstance(a.sort, Tup) and isinstance(b.sort, Tup):
        raise EngineLimit("tuple ordering")
    if a.sort == NONE or b.sort == NONE:
        raise PyRaise_("TypeError", line)
    a = as_num(eng, a, line)
    b = as_num(eng, b, line)
    x, y = a.t, b.t
    if is_conc_num(x) and is_conc_num(y):
        return {"Lt": x < y, "LtE": x <= y, "Gt": x > y, "GtE": x >= y}[opn]
    s = num_sort(a, b)
    x, y = _z(x, s), _z(y, s)
    return {"Lt": x < y, "LtE": x <= y, "Gt": x > y, "GtE": x >= y}[opn]


# --------------------------------------------------------------------------- equality
def equal(eng, a, b):
    if isinstance(a, PyVal) or isinstance(b, PyVal):
        return pyval_equal(eng, a, b)
    sa, sb = a.sort, b.sort
    if sa == NONE and sb == NONE:
        return True
    if sa == NONE:
        a, b, sa, sb = b, a, sb, sa
    if sb == NONE:
        if isinstance(sa, Opt):
            return a.t[0]
        return False
    if isinstance(sa, Opt) and isinstance(sb, Opt):
        ia, va = a.t
        ib, vb = b.t
        return or_(and_(ia, ib), and_(not_(ia), not_(ib), equal(eng, va, vb)))
    if isinstance(sa, Opt):
        return and_(not_(a.t[0]), equal(eng, a.t[1], b))
    if isinstance(sb, Opt):
        return and_(not_(b.t[0]), equal(eng, a, b.t[1]))
    if sa in (REAL, INT, BOOL) and sb in (REAL, INT, BOOL):
        if sa == BOOL and sb == BOOL:
            if isinstance(a.t, bool) and isinstance(b.t, bool):
                return a.t == b.t
            return zb(a.t) == zb(b.t)
        a2, b2 = as_num(eng, a, None), as_num(eng, b, None)
        if is_conc_num(a2.t) and is_conc_num(b2.t):
            return a2.t == b2.t
        s = num_sort(a2, b2)
        return _z(a2.t, s) == _z(b2.t, s)
    if sa == ATOM and sb == ATOM:
        if isinstance(a.t, Atom) and isinstance(b.t, Atom):
            return a.t == b.t
        return za(a.t) == za(b.t)
    if isinstance(sa, (Ref, ListOf, MapOf)) and isinstance(sb, (Ref, ListOf, MapOf)):
        if isinstance(sa, ListOf) or isinstance(sa, MapOf):
            # == on containers is structural in python; only identity-equal is decided here
            if a.t is b.t:
                return True
            raise EngineLimit("structural equality of containers")
        if isinstance(sa, Ref) and isinstance(sb, Ref):
            if eng.repo.lookup_member(sa.cls, "__eq__"):
                raise EngineLimit("__eq__ on %s" % sa.cls)
        return zr(a.t) == zr(b.t)
    if isinstance(sa, Tup) and isinstance(sb, Tup):
        if len(a.t) != len(b.t):
            return False
        return and_(*[equal(eng, x, y) for x, y in zip(a.t, b.t)])
    if sa == CHARS and sb == CHARS:
        return chars_equal(eng, a, b)
    # different kinds never equal
    kinds = lambda s: "num" if s in (REAL, INT, BOOL) else ("atom" if s == ATOM else ("ref" if isinstance(s, (Ref, ListOf, MapOf)) else ("tup" if isinstance(s, Tup) else str(s))))
    if kinds(sa) != kinds(sb):
        return False
    raise EngineLimit("equality of %s and %s" % (sa, sb))


def pyval_equal(eng, a, b):
    if isinstance(a, PyVal) and isinstance(b, PyVal):
        if a.kind in ("tuple", "list") and b.kind == a.kind:
            if len(a.items) != len(b.items):
                return False
            return and_(*[equal(eng, x, y) for x, y in zip(a.items, b.items)])
        if a.kind == "dictlit" and b.kind == "dictlit":
            if len(a.items) == 0 and len(b.items) == 0:
                return True
            raise EngineLimit("dict literal equality")
        if a.kind == "class" and b.kind == "class":
            return a.ci.name == b.ci.name
        if a.kind == b.kind == "excclass":
            return a.name == b.name
        return a is b
    # PyVal vs SV
    if isinstance(a, SV):
        a, b = b, a
    if a.kind == "tuple" and isinstance(b.sort, Tup):
        if len(a.items) != len(b.t):
            return False
        return and_(*[equal(eng, x, y) for x, y in zip(a.items, b.t)])
    if a.kind == "dictlit" and isinstance(b.sort, MapOf) and not a.items:
        return map_size(eng, b) == 0
    if b.sort == NONE:
        return False
    if isinstance(b.sort, Opt):
        return and_(not_(b.t[0]), pyval_equal(eng, a, b.t[1]))
    if a.kind in ("list", "tuple") and isinstance(b.sort, ListOf):
        n = eng.list_len(b.t, b.sort.elem)
        conj = [n == len(a.items)]
        for i, x in enumerate(a.items):
            conj.append(equal(eng, eng.list_get(b.t, b.sort.elem, z3.IntVal(i)), x))
        return and_(*conj)
    return False


def chars_equal(eng, a, b):
    la, aa = a.t
    lb, ab = b.t
    i = bvar("ci")
    return z3.And(zr(la) == zr(lb), z3.ForAll([i], z3.Implies(z3.And(0 <= i, i < zr(la)), z3.Select(aa, i) == z3.Select(ab, i))))


def map_size(eng, mv):
    from . import containers as ct

    return ct.map_size(eng, mv)


# --------------------------------------------------------------------------- late-bound parts
from .builtins2 import *  # noqa  (containers, calls, loops)
