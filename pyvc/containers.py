"""dict objects on the heap (MapOf).  dom / val arrays per (key sort, value sort), an insertion-ordered key list."""
import z3

from .values import *  # noqa


def _nyi(*a, **k):
    raise EngineLimit("dict model not available for this operation")


map_size = map_new = map_getitem = map_setitem = map_delitem = map_contains = map_method = map_havoc = _nyi
map_comprehension = dict_comprehension = view_to_list = _nyi


def maps_havoc_all(eng, prefix):
    for k in list(eng.path.heap):
        if k[0] == "$Map":
            arr = eng.path.heap[k]
            eng.path.heap[k] = z3.Const(fresh_name(prefix + "_map"), arr.sort())


class MapViewSource:
    def __init__(self, eng, view):
        raise EngineLimit("iteration over dict views not modelled yet")
