"""Sidecar contracts: loading, modular application at call sites, verification of a function body."""
import ast
import glob
import os

import z3

from .values import *  # noqa
from . import builtins_model as bm
from . import engine as E
from .containers import MapOfDefault

CLAUSES = {
    "requires", "ensures", "raises", "modifies", "modifies_all", "modifies_list", "modifies_map", "invariant",
    "decreases", "local", "trusted", "ensures_raise", "note", "cover",
}


class Contract:
    def __init__(self, qual, func, node, tags, sidecar, kind="repo", opts=None):
        self.qual = qual
        self.func = func
        self.node = node
        self.tags = list(tags)
        self.sidecar = sidecar
        self.kind = kind  # repo | virtual | external
        self.opts = opts or {}
        self.param_sorts = dict(getattr(func, "__annotations__", {}))
        self.ret_sort = self.param_sorts.pop("return", None)
        self.requires = []  # (label, node)
        self.ensures = []
        self.raises = []  # dict(exc, when, label, iff, modifies)
        self.modifies = []  # (expr_node, field)  | ("all", field) | ("list", expr) | ("map", expr)
        self.modifies_lists = False
        self.modifies_maps = False
        self.invariants = {}
        self.decreases = {}
        self.local_sorts = {}
        self.trusted = None
        self.covers = []
        self.ns = None
        for st in node.body:
            if isinstance(st, ast.Expr) and isinstance(st.value, ast.Constant):
                continue
            if isinstance(st, ast.Pass):
                continue
            if not (isinstance(st, ast.Expr) and isinstance(st.value, ast.Call) and isinstance(st.value.func, ast.Name) and st.value.func.id in CLAUSES):
                raise ValueError("%s: contract body line %d is not a clause" % (qual, st.lineno))
            call = st.value
            k = call.func.id
            a = call.args
            kw = {x.arg: x.value for x in call.keywords}
            lab = lambda i: a[i].value if isinstance(a[i], ast.Constant) and isinstance(a[i].value, str) else None
            if k in ("requires", "ensures", "cover"):
                if len(a) == 2:
                    item = (lab(0), a[1])
                else:
                    item = ("l%d" % st.lineno, a[0])
                {"requires": self.requires, "ensures": self.ensures, "cover": self.covers}[k].append(item)
            elif k == "raises":
                exc = a[0].id
                self.raises.append(
                    dict(exc=exc, when=kw.get("when"), label=(kw["label"].value if "label" in kw else exc), iff=bool(kw.get("iff") and kw["iff"].value),
                         modifies=[(("map", m.elts[0]) if m.elts[1].value == "@map" else (("list", m.elts[0]) if m.elts[1].value == "@list" else (m.elts[0], m.elts[1].value)))
                                   for m in (kw["modifies"].elts if "modifies" in kw else [])],
                         ensures=kw.get("ensures"))
                )
            elif k == "modifies":
                self.modifies.append((a[0], a[1].value))
            elif k == "modifies_all":
                self.modifies.append(("all", a[0].value))
            elif k == "modifies_list":
                self.modifies.append(("list", a[0]))
                self.modifies_lists = True
            elif k == "modifies_map":
                self.modifies.append(("map", a[0]))
                self.modifies_maps = True
            elif k == "invariant":
                self.invariants.setdefault(a[0].value, []).append((lab(1), a[2]))
            elif k == "decreases":
                self.decreases[a[0].value] = a[1]
            elif k == "local":
                pass  # evaluated at load (needs namespace)
            elif k == "trusted":
                self.trusted = a[0].value
            elif k == "note":
                pass

    @property
    def short(self):
        return self.qual.split("::")[-1] + ("#" + self.opts["variant"] if self.opts.get("variant") else "")


class Spec:
    def __init__(self):
        self.schemas = {}  # cls -> {field: sort}
        self.structs = {}  # cls -> dict(fields, absent_keyerror)
        self.records = {}
        self.module_vars = {}
        self.consts = {}
        self.inlines = set()
        self.locks = set()
        self.abstract_bools = {}
        self.class_tags = {}
        self.contracts = {}
        self.virtuals = {}
        self.externals = {}
        self.specfuncs = {}
        self.specconsts = {}
        self.writes_seen = []
        self.files = []
        self.clock = None
        self.ground = {}
        self.abstract_props = []
        self.dispatch = {}

    # ---- loading
    def load_dir(self, d, ground=None):
        self.ground = ground or {}
        for f in sorted(glob.glob(os.path.join(d, "*.py"))):
            self.load_file(f)

    def load_file(self, path):
        src = open(path).read()
        tree = ast.parse(src)
        self.files.append(path)
        spec = self
        fnodes = {}
        for n in tree.body:
            if isinstance(n, ast.FunctionDef):
                first = min([d.lineno for d in n.decorator_list] + [n.lineno])
                fnodes[first] = n

        def node_of(func):
            return fnodes[func.__code__.co_firstlineno]

        def schema(cls, **fields):
            spec.schemas.setdefault(cls, {}).update(fields)

        def struct(cls, absent_keyerror=True, **fields):
            spec.schemas.setdefault(cls, {}).update(fields)
            spec.structs[cls] = dict(fields=list(fields), absent_keyerror=absent_keyerror)

        def record(cls, *sorts):
            spec.schemas.setdefault(cls, {}).update({str(i): s for i, s in enumerate(sorts)})
            spec.records[cls] = len(sorts)

        def module_var(mod, **vars_):
            spec.module_vars.setdefault(mod, {}).update(vars_)

        def const(mod, name, value):
            spec.consts[(mod, name)] = value

        def inline(*quals):
            spec.inlines.update(quals)

        def lock(cls):
            spec.locks.add(cls)

        def abstract_bool(cls, field):
            spec.abstract_bools[cls] = field
            spec.schemas.setdefault(cls, {})[field] = BOOL

        def class_tag(cls, field):
            spec.class_tags[cls] = field
            spec.schemas.setdefault(cls, {})[field] = ATOM

        def contract(qual, tags=(), **opts):
            def deco(func):
                c = Contract(qual, func, node_of(func), tags, path, "repo", opts)
                c.ns = ns
                _locals(c)
                key = qual if not opts.get("variant") else "%s#%s" % (qual, opts["variant"])
                spec.contracts[key] = c
                return func

            return deco

        def virtual(cls, name, tags=(), **opts):
            def deco(func):
                c = Contract("virtual::%s.%s" % (cls, name), func, node_of(func), tags, path, "virtual", opts)
                c.ns = ns
                spec.virtuals[(cls, name)] = c
                return func

            return deco

        def lemma(name, tags=(), **opts):
            def deco(func):
                c = Contract("lemma::%s" % name, func, node_of(func), tags, path, "lemma", opts)
                c.ns = ns
                spec.contracts["lemma::%s" % name] = c
                return func

            return deco

        def external(full, tags=(), **opts):
            def deco(func):
                c = Contract("external::%s" % full, func, node_of(func), tags, path, "external", opts)
                c.ns = ns
                spec.externals[full] = c
                return func

            return deco

        def _locals(c):
            for st in c.node.body:
                if isinstance(st, ast.Expr) and isinstance(st.value, ast.Call) and getattr(st.value.func, "id", None) == "local":
                    for k in st.value.keywords:
                        c.local_sorts[k.arg] = eval(compile(ast.Expression(k.value), path, "eval"), ns)

        def abstract_property(cls, name, sort):
            spec.schemas.setdefault(cls, {})[name] = sort
            spec.abstract_props.append("%s.%s" % (cls, name))

        def dispatch(static_cls, dynamic_cls):
            spec.dispatch[static_cls] = dynamic_cls

        def grid(lo, step, n):
            return PyVal("grid", lo=frac(lo), step=frac(step), n=n)

        def ground_numbers(key):
            return PyVal("list", items=[bm.const_value(frac(x)) for x in spec.ground[key]])

        def bands(last, *bs):
            """a module-level price ladder modelled by its increment bands [(lo, hi, step), ...] plus the last tick;
            the model is ground-checked against the real constant on every run (extra_c17.py)"""
            return PyVal("bands", bands=[(frac(a), frac(b), frac(s)) for a, b, s in bs], last=frac(last))

        def ghost_list(key, ident):
            """a module-level constant list held as a heap list at a fixed negative reference; its length, every element and
            (ground-checked) strict monotonicity are assumed facts"""
            return PyVal("ghostlist", key=key, ident=ident, values=[frac(x) for x in spec.ground[key]])

        def charset(chars):
            return PyVal("charset", codes=sorted(ord(c) for c in chars))

        def clock(mod, var):
            spec.clock = (mod, var)

        ns = dict(
            REAL=REAL, MONEY=MONEY, INT=INT, BOOL=BOOL, ATOM=ATOM, CHARS=CHARS, NONE=NONE, Ref=Ref, Opt=Opt, Tup=Tup, ListOf=ListOf, MapOf=MapOf,
            schema=schema, struct=struct, record=record, module_var=module_var, const=const, inline=inline, lock=lock,
            abstract_bool=abstract_bool, class_tag=class_tag, contract=contract, virtual=virtual, external=external, lemma=lemma,
            abstract_property=abstract_property, dispatch=dispatch, MapOfDefault=MapOfDefault, grid=grid, ground_numbers=ground_numbers, ghost_list=ghost_list, bands=bands, charset=charset, clock=clock, Fraction=Fraction_,
        )
        # clause names must exist so that decorated bodies compile (they are never run)
        for k in CLAUSES:
            ns.setdefault(k, lambda *a, **kw: None)
        exec(compile(tree, path, "exec"), ns)
        for n in tree.body:
            if isinstance(n, ast.FunctionDef) and not n.decorator_list:
                self.specfuncs[n.name] = PyVal("specfunc", node=n, name=n.name)
            elif isinstance(n, ast.Assign) and len(n.targets) == 1 and isinstance(n.targets[0], ast.Name):
                v = ns.get(n.targets[0].id)
                if isinstance(v, (int, float, str, bool)) or v is None:
                    self.specconsts[n.targets[0].id] = bm.const_value(v)
                elif isinstance(v, (tuple, list)) and all(isinstance(x, (int, float, str)) for x in v):
                    self.specconsts[n.targets[0].id] = PyVal("tuple", items=[bm.const_value(x) for x in v])
                elif isinstance(v, PyVal):
                    self.specconsts[n.targets[0].id] = v

    # ---- queries
    def field_sort(self, repo, cls, field):
        for c in repo.mro(cls):
            f = self.schemas.get(c)
            if f and field in f:
                return c, f[field]
        return None

    def all_fields(self, repo, cls):
        out = {}
        for c in reversed(repo.mro(cls)):
            for f, s in self.schemas.get(c, {}).items():
                out[f] = (c, s)
        return out

    def fields_named(self, attr):
        return [(c, f[attr]) for c, f in self.schemas.items() if attr in f]

    def lookup(self, name):
        if name in self.specfuncs:
            return self.specfuncs[name]
        if name in self.specconsts:
            return self.specconsts[name]
        return None

    def const_spec(self, module, name):
        return self.consts.get((module.modname, name))

    def abstract_bool(self, cls):
        for c, f in self.abstract_bools.items():
            if c == cls:
                return (c, f)
        return None

    def virtual_member(self, cls, attr):
        return self.virtuals.get((cls, attr))

    def contract_for(self, qual, args=None, repo=None):
        """the contract used at a call site; when a function has several instantiations (variant=...), the one whose
        declared Ref parameter classes fit the static classes of the arguments"""
        variants = [c for k, c in self.contracts.items() if k.startswith(qual + "#")]
        if variants and args is not None and repo is not None:
            best = None
            for c in variants + ([self.contracts[qual]] if qual in self.contracts else []):
                names = [a.arg for a in c.node.args.args]
                ok = True
                score = 0
                for nm, v in zip(names, args):
                    s = c.param_sorts.get(nm)
                    if isinstance(s, Ref) and isinstance(v, SV) and isinstance(v.sort, Ref):
                        if repo.is_subclass(v.sort.cls, s.cls):
                            score += len(repo.mro(s.cls))
                        else:
                            ok = False
                if ok and (best is None or score > best[0]):
                    best = (score, c)
            if best is not None:
                return best[1]
        return self.contracts.get(qual)

    def may_inline(self, qual):
        return qual in self.inlines

    def inline_all_pure(self, qual):
        return False

    def module_var_sort(self, modname, attr):
        return self.module_vars.get(modname, {}).get(attr)

    def note_write(self, eng, owner, attr, line):
        self.writes_seen.append((eng.cur_func, owner, attr, line))

    def struct_fields(self, cls):
        return self.structs[cls]["fields"]

    def is_struct(self, cls):
        return cls in self.structs

    def struct_absent_is_keyerror(self, cls):
        return self.structs[cls]["absent_keyerror"]

    def is_record(self, cls):
        return cls in self.records

    def record_len(self, cls):
        return self.records[cls]

    def class_tag_field(self, clsname):
        return None

    def class_tag(self, eng, v):
        for c in eng.repo.mro(v.sort.cls):
            if c in self.class_tags:
                return za(eng.read_field(v.t, c, self.class_tags[c], ATOM).t)
        return None

    def builtin_contract(self, name):
        return self.externals.get("builtins." + name)

    def external_contract(self, full):
        return self.externals.get(full)

    def clock_now(self, eng):
        if self.clock is None:
            raise EngineLimit("utcnow(): no clock(...) declared")
        mod, var = self.clock
        return eng.read_field(z3.IntVal(0), "$mod:" + mod, var, REAL)

    def is_lock(self, cls):
        return cls in self.locks

    def contracts_named(self, name):
        out = [c for q, c in self.contracts.items() if q.split("::")[-1].split(".")[-1] == name]
        out += [c for (cl, n), c in self.virtuals.items() if n == name]
        return out

    def inline_candidates(self, repo, name):
        out = []
        for q in self.inlines:
            if q.split("::")[-1].split(".")[-1].replace("@setter", "") == name:
                try:
                    out.append((q, repo.find(q)))
                except KeyError:
                    pass
        return out


def Fraction_(*a):
    from fractions import Fraction

    return Fraction(*a)


# --------------------------------------------------------------------------- clause evaluation
def eval_clause(eng, c, node, fr, extra=None, as_bool=True):
    saved = eng.spec_mode
    eng.spec_mode = True
    try:
        v = eng.eval(node, fr)
    finally:
        eng.spec_mode = saved
    if as_bool:
        return eng.truth(v)
    return v


def spec_frame(eng, c, locals_, old_heap, old_locals, module=None):
    fr = E.Frame(module, None, None, dict(locals_))
    fr.old_heap = old_heap
    fr.old_locals = dict(old_locals)
    return fr


def bind_contract_args(eng, c, node, args, kwargs, module=None):
    """bind call arguments to the parameter names: the REAL signature (with its defaults) when the callee is a repo
    function, the sidecar signature for virtual / external contracts"""
    fr = E.Frame(module, None, None, {})
    eng.bind_params(node if node is not None else c.node, fr, args, dict(kwargs), module)
    out = {}
    for k, v in fr.locals.items():
        s = c.param_sorts.get(k)
        if s is not None and isinstance(v, (SV, PyVal)):
            try:
                v = bm.coerce(eng, v, s)
            except EngineLimit:
                pass
        out[k] = v
    return out


def havoc_modifies(eng, c, mods, fr, prefix):
    for m in mods:
        if m[0] == "all":
            f = m[1]
            if "." in f:
                cls, fld = f.split(".")
                owner, fs = eng.field_info(cls, fld)
                eng.havoc_field_all(owner, fld, fs, prefix)
            else:
                for owner, fs in eng.spec.fields_named(f):
                    eng.havoc_field_all(owner, f, fs, prefix)
        elif m[0] == "list":
            lv = eval_clause(eng, c, m[1], fr, as_bool=False)
            if isinstance(lv, SV) and isinstance(lv.sort, Opt):
                lv = lv.t[1]
            elem = lv.sort.elem
            n = z3.Int(fresh_name(prefix + "_len"))
            eng.path.assume(n >= 0, check=False)
            arrs = [z3.Const(fresh_name(prefix + "_items"), z3.ArraySort(z3.IntSort(), zs)) for zs in z3sorts(elem)]
            eng.list_set_all(lv.t, elem, n, arrs)
        elif m[0] == "map":
            from . import containers as ct

            mv = eval_clause(eng, c, m[1], fr, as_bool=False)
            ct.map_havoc(eng, mv, prefix)
        else:
            base = eval_clause(eng, c, m[0], fr, as_bool=False)
            if isinstance(base, SV) and isinstance(base.sort, Opt):
                base = base.t[1]
            if isinstance(base, SV) and isinstance(base.sort, ListOf):
                # every element of the list: field of each
                raise EngineLimit("modifies over list elements: use modifies_all")
            owner, fs = eng.field_info(base.sort.cls, m[1])
            eng.havoc_field_at(base.t, owner, m[1], fs, prefix)


def apply_contract_at_call(eng, c, module, cls, node, args, kwargs, line):
    p = eng.path
    eng.called_contracts.add(c.qual)
    locals_ = bind_contract_args(eng, c, node, args, kwargs, module)
    pre_heap = dict(p.heap)
    fr = spec_frame(eng, c, locals_, pre_heap, locals_)
    site = "%s/call-pre:%s" % (eng.cur_short, c.short)
    for label, n in c.requires:
        g = eval_clause(eng, c, n, fr)
        eng.oblige("%s.%s@%s" % (site, label, line), zb(g), "call-pre", line)
        p.assume(zb(g), check=False)
    # exceptional outcomes
    nr = len(c.raises)
    choice = 0
    if nr:
        choice = p.choose(nr + 1, "call:%s" % c.short)
    if choice > 0:
        r = c.raises[choice - 1]
        if r["when"] is not None:
            p.assume(zb(eval_clause(eng, c, r["when"], fr)))
        havoc_modifies(eng, c, r["modifies"], fr, "cx_%s" % c.short.replace(".", "_"))
        if r.get("ensures") is not None:
            fr_post = spec_frame(eng, c, locals_, pre_heap, locals_)
            p.assume(zb(eval_clause(eng, c, r["ensures"], fr_post)), check=False)
        raise E.PyRaise(r["exc"], None, line)
    for r in c.raises:
        if r["iff"] and r["when"] is not None:
            p.assume(bm.not_(eval_clause(eng, c, r["when"], fr)))
    # normal outcome
    havoc_modifies(eng, c, c.modifies, fr, "c_%s" % c.short.replace(".", "_"))
    if c.ret_sort is not None and c.ret_sort != NONE:
        if c.opts.get("fresh_result") and isinstance(c.ret_sort, (Ref, ListOf, MapOf)):
            res = SV(c.ret_sort, eng.new_ref())
        else:
            res = fresh_value(c.ret_sort, "ret_%s" % c.short.replace(".", "_"))
            eng.wf_assume(res)
    else:
        res = NONE_V
    fr_post = spec_frame(eng, c, locals_, pre_heap, locals_)
    fr_post.locals["result"] = res
    for label, n in c.ensures:
        g = eval_clause(eng, c, n, fr_post)
        p.assume(zb(g), check=False)
    if eng.prune and p.solver.check() == z3.unsat:
        raise E.Infeasible()
    return res


def apply_builtin_sorted(eng, v, kwargs, line):
    raise EngineLimit("sorted(): no model")


def apply_list_sort(eng, base, kwargs, line):
    c = eng.spec.external_contract("builtins.list.sort")
    if c is None:
        raise EngineLimit("list.sort(): no assumed contract")
    return apply_contract_at_call(eng, c, None, None, None, [base], {}, line)


# --------------------------------------------------------------------------- verification of one function
class FunctionResult:
    def __init__(self, c):
        self.contract = c
        self.obligations = []
        self.paths = 0
        self.status = "ok"
        self.limit = None
        self.covers = []
        self.info = {}
        self.observables = []


def make_param(eng, name, sort):
    if isinstance(sort, PyVal) or not isinstance(sort, Sort):
        return sort
    terms = [z3.Const("arg_%s_%d" % (name, i), zs) for i, zs in enumerate(z3sorts(sort))]
    v = unflatten(sort, terms)
    eng.wf_assume(v)
    return v


def verify_lemma(eng, c):
    """a spec-level lemma: fresh parameters, assume requires, prove ensures"""
    res = FunctionResult(c)
    res.info = dict(file=os.path.relpath(c.sidecar, os.path.dirname(os.path.dirname(c.sidecar))), lines=[c.node.lineno, c.node.end_lineno], sha256="")
    eng.cur_func = c.qual
    eng.cur_short = c.short
    eng.cur_tags = c.tags
    eng.cur_target = c.qual

    def run(p):
        locals_ = {}
        for a in c.node.args.args:
            locals_[a.arg] = make_param(eng, a.arg, c.param_sorts[a.arg])
        fr = spec_frame(eng, c, locals_, {}, locals_)
        eng.region_frame = fr
        for label, n in c.requires:
            p.assume(zb(eval_clause(eng, c, n, fr)), check=False)
        if p.solver.check() == z3.unsat:
            raise E.Infeasible()
        for label, n in c.ensures:
            g = eval_clause(eng, c, n, fr)
            eng.oblige("%s/lemma:%s" % (eng.cur_short, label), zb(g), "ensures", extra={"clause": ast.unparse(n)})
        eng.oblige("%s/canary" % eng.cur_short, z3.BoolVal(False), "canary")

    try:
        results = eng.explore(run, 10)
    except EngineLimit as e:
        res.status = "out-of-reach"
        res.limit = str(e)
        return res
    for p, status in results:
        res.paths += 1
        res.obligations += p.obligations
    return res


def verify_function(eng, c, max_paths=3000):
    if c.kind == "lemma":
        return verify_lemma(eng, c)
    res = FunctionResult(c)
    module, cls, node = eng.repo.find(c.qual)
    res.info = dict(file=module.relpath, lines=[node.lineno, node.end_lineno], sha256=eng.repo.sha(module, node))
    if getattr(node, "_other_decorators", None):
        res.status = "out-of-reach"
        res.limit = "decorator %s" % node._other_decorators
        return res
    eng.cur_func = c.qual
    eng.cur_short = c.short
    eng.cur_tags = c.tags
    eng.cur_target = c.qual

    def run(p):
        eng.depth = 0
        fr = E.Frame(module, cls, node, {})
        fr.contract = c
        a = node.args
        params = [x.arg for x in a.posonlyargs + a.args + a.kwonlyargs]
        defaults = {}
        nd = len(a.defaults)
        pos = a.posonlyargs + a.args
        for i, d in enumerate(a.defaults):
            defaults[pos[len(pos) - nd + i].arg] = d
        for ko, kd in zip(a.kwonlyargs, a.kw_defaults):
            if kd is not None:
                defaults[ko.arg] = kd
        for nm in params:
            if nm in c.param_sorts:
                fr.locals[nm] = make_param(eng, nm, c.param_sorts[nm])
            elif nm == "self" and cls is not None:
                fr.locals[nm] = make_param(eng, nm, Ref(c.opts.get("self_class", cls.name)))
            elif nm in defaults:
                fr.locals[nm] = eng.eval(defaults[nm], E.Frame(module, None, None, {}))
            else:
                raise EngineLimit("parameter %s of %s has no declared sort" % (nm, c.qual))
        if a.vararg or a.kwarg:
            if a.vararg:
                fr.locals[a.vararg.arg] = bm.make_tuple([])
            if a.kwarg:
                fr.locals[a.kwarg.arg] = PyVal("dictlit", items=[])
        entry_locals = dict(fr.locals)
        eng.observables = collect_observables(eng, entry_locals)
        fr.old_locals = entry_locals
        pre_heap = {}
        fr.old_heap = pre_heap
        p.heap0 = pre_heap
        sfr = spec_frame(eng, c, entry_locals, pre_heap, entry_locals, module)
        eng.region_frame = sfr
        for label, n in c.requires:
            p.assume(zb(eval_clause(eng, c, n, sfr)), check=False)
        # materialise the lazily created initial arrays in the pre-state snapshot
        pre_heap.update(p.heap)
        if p.solver.check() == z3.unsat:
            p.notes.append("requires unsatisfiable")
            raise E.Infeasible()
        res.covers.append(("requires", True))
        result = NONE_V
        try:
            try:
                eng.exec_block(node.body, fr)
            except E.ReturnEx as r:
                result = r.value
        except E.PyRaise as ex:
            finish_exceptional(eng, c, ex, entry_locals, pre_heap, module)
            return
        except (E.BreakEx, E.ContinueEx):
            raise EngineLimit("break/continue outside loop")
        finish_normal(eng, c, result, entry_locals, pre_heap, module)

    eng.observables = []
    try:
        results = eng.explore(run, max_paths)
    except EngineLimit as e:
        res.status = "out-of-reach"
        res.limit = str(e)
        res.observables = list(eng.observables)
        return res
    for p, status in results:
        res.paths += 1
        res.obligations += p.obligations
    res.observables = list(eng.observables)
    return res


def collect_observables(eng, entry_locals, depth=3, limit=160):
    """named terms of the PRE state (parameters and the scalar fields reachable from them) whose model values
    go into the replay file so that real objects can be rebuilt natively"""
    out = []
    seen = set()

    def scalar(path, v):
        if isinstance(v, PyVal):
            return
        s = v.sort
        if s in (REAL, INT, BOOL, ATOM):
            conc = isinstance(v.t, (int, bool, Atom)) or is_conc_num(v.t)
            out.append((path, s.name + ("=const" if conc else ""), [za(v.t) if s == ATOM else (zb(v.t) if s == BOOL else zr(v.t))]))
        elif isinstance(s, Opt):
            isn, inner = v.t
            out.append((path + "?none", "Bool", [zb(isn)]))
            visit(path, inner, 0)
        elif isinstance(s, Tup):
            for i, x in enumerate(v.t):
                visit("%s[%d]" % (path, i), x, 0)

    def visit(path, v, d):
        if len(out) > limit or isinstance(v, PyVal):
            return
        s = v.sort
        if isinstance(s, Ref):
            out.append((path + "@ref", "Ref:" + s.cls, [zr(v.t)]))
            if d >= depth:
                return
            for fname, (owner, fs) in sorted(eng.spec.all_fields(eng.repo, s.cls).items()):
                try:
                    fv = eng.read_field(v.t, owner, fname, fs, heap=eng.path.heap, assume_wf=False)
                except Exception:
                    continue
                visit("%s.%s" % (path, fname), fv, d + 1)
        elif isinstance(s, ListOf):
            n = eng.list_len(v.t, s.elem)
            out.append((path + "@len", "Int", [n]))
            if d >= depth:
                return
            for i in range(3):
                visit("%s[%d]" % (path, i), eng.list_get(v.t, s.elem, z3.IntVal(i), heap=eng.path.heap), d + 1)
        elif isinstance(s, MapOf):
            return
        else:
            scalar(path, v)

    saved_bd = eng.bound_depth
    eng.bound_depth = 1  # no purification while collecting
    try:
        for name, v in entry_locals.items():
            visit(name, v, 0)
    finally:
        eng.bound_depth = saved_bd
    return out


def pre_key(k):
    return k


def frame_obligations(eng, c, mods, entry_locals, pre_heap, module, tag):
    """every heap cell not named by a modifies clause is unchanged (for objects that existed at entry)"""
    p = eng.path
    fr = spec_frame(eng, c, entry_locals, pre_heap, entry_locals, module)
    # evaluate modifies bases in the PRE state
    saved = p.heap
    p.heap = dict(pre_heap)
    allowed = {}  # (owner, field) -> list of ref terms | "all"
    allowed_lists = []
    try:
        for m in mods:
            if m[0] == "all":
                f = m[1]
                if "." in f:
                    cls, fld = f.split(".")
                    owner, fs = eng.field_info(cls, fld)
                    allowed[(owner, fld)] = "all"
                else:
                    for owner, fs in eng.spec.fields_named(f):
                        allowed[(owner, f)] = "all"
            elif m[0] in ("list", "map"):
                lv = eval_clause(eng, c, m[1], fr, as_bool=False)
                if isinstance(lv, SV) and isinstance(lv.sort, Opt):
                    lv = lv.t[1]
                allowed_lists.append(zr(lv.t))
            else:
                base = eval_clause(eng, c, m[0], fr, as_bool=False)
                if isinstance(base, SV) and isinstance(base.sort, Opt):
                    base = base.t[1]
                owner, fs = eng.field_info(base.sort.cls, m[1])
                cur = allowed.setdefault((owner, m[1]), [])
                if cur != "all":
                    cur.append(zr(base.t))
    finally:
        pre_heap.update({k: v for k, v in p.heap.items() if k not in pre_heap})
        p.heap = saved
    alloc0 = z3.Int("alloc0")
    for k, arr in p.heap.items():
        old = pre_heap.get(k)
        if old is None:
            old = z3.Array("H0_%s_%d" % (".".join(str(x) for x in k[:-1]), k[-1]), z3.IntSort(), arr.sort().range()) if k[0] != "$List" and k[0] != "$Map" else None
        if old is None or arr is old or arr.eq(old):
            continue
        r = z3.Int(fresh_name("fr"))
        if k[0] in ("$List", "$Map"):
            excl = [r != x for x in allowed_lists]
            goal = z3.Implies(z3.And(r > 0, r <= alloc0, *excl), z3.Select(arr, r) == z3.Select(old, r))
            eng.oblige("%s/frame%s:%s" % (eng.cur_short, tag, "_".join(str(x) for x in k)), goal, "frame")
            continue
        owner, field = k[0], k[1]
        al = allowed.get((owner, field))
        if al == "all":
            continue
        excl = [r != x for x in (al or [])]
        goal = z3.Implies(z3.And(r > 0, r <= alloc0, *excl), z3.Select(arr, r) == z3.Select(old, r))
        eng.oblige("%s/frame%s:%s.%s" % (eng.cur_short, tag, owner, field), goal, "frame")


def finish_normal(eng, c, result, entry_locals, pre_heap, module):
    p = eng.path
    fr = spec_frame(eng, c, entry_locals, pre_heap, entry_locals, module)
    if isinstance(result, PyVal) and c.ret_sort is not None and c.ret_sort != NONE:
        result = bm.coerce(eng, result, c.ret_sort)
    fr.locals["result"] = result
    for r in c.raises:
        if r["iff"] and r["when"] is not None:
            g = bm.not_(eval_in_pre(eng, c, r["when"], entry_locals, pre_heap, module))
            eng.oblige("%s/raises-iff:%s" % (eng.cur_short, r["label"]), zb(g), "ensures", extra={"clause": "not old(%s)" % ast.unparse(r["when"])})
    if c.opts.get("fresh_result") and isinstance(result, SV) and isinstance(result.sort, (Ref, ListOf, MapOf)):
        eng.oblige("%s/ensures:result_is_fresh" % eng.cur_short, zr(result.t) > z3.Int("alloc0"), "ensures")
    for label, n in c.ensures:
        g = eval_clause(eng, c, n, fr)
        eng.oblige("%s/ensures:%s" % (eng.cur_short, label), zb(g), "ensures", extra={"clause": ast.unparse(n)})
    frame_obligations(eng, c, c.modifies, entry_locals, pre_heap, module, "")
    eng.oblige("%s/canary" % eng.cur_short, z3.BoolVal(False), "canary")


def eval_in_pre(eng, c, node, entry_locals, pre_heap, module, as_bool=True):
    """evaluate a clause against the pre-state heap"""
    p = eng.path
    fr = spec_frame(eng, c, entry_locals, pre_heap, entry_locals, module)
    saved = p.heap
    p.heap = dict(pre_heap)
    try:
        return eval_clause(eng, c, node, fr, as_bool=as_bool)
    finally:
        pre_heap.update({k: v for k, v in p.heap.items() if k not in pre_heap})
        p.heap = saved


def finish_exceptional(eng, c, ex, entry_locals, pre_heap, module):
    p = eng.path
    matches = [r for r in c.raises if eng.exc_is_sub(ex.exc, r["exc"])]
    if not matches:
        eng.oblige("%s/no-unexpected-exception:%s@%s" % (eng.cur_short, ex.exc, ex.line), z3.BoolVal(False), "safety", ex.line)
        return
    r = matches[0]
    # the 'when' condition is evaluated in the pre-state
    saved = p.heap
    if r["when"] is not None:
        fr = spec_frame(eng, c, entry_locals, pre_heap, entry_locals, module)
        p.heap = dict(pre_heap)
        try:
            g = eval_clause(eng, c, r["when"], fr)
        finally:
            pre_heap.update({k: v for k, v in p.heap.items() if k not in pre_heap})
            p.heap = saved
        eng.oblige("%s/raises:%s@%s" % (eng.cur_short, r["label"], ex.line), zb(g), "raises", ex.line, extra={"clause": ast.unparse(r["when"])})
    if r.get("ensures") is not None:
        fr = spec_frame(eng, c, entry_locals, pre_heap, entry_locals, module)
        g = eval_clause(eng, c, r["ensures"], fr)
        eng.oblige("%s/raises-ensures:%s@%s" % (eng.cur_short, r["label"], ex.line), zb(g), "raises", ex.line)
    frame_obligations(eng, c, r["modifies"], entry_locals, pre_heap, module, "-on-%s" % r["label"])
    eng.oblige("%s/canary-raise:%s" % (eng.cur_short, r["label"]), z3.BoolVal(False), "canary")
