"""check driver: generate + discharge the obligations of one property, replay counterexamples, write evidence."""
import argparse
import json
import os
import re
import subprocess
import sys
import time

import z3

from .repo import Repo
from .engine import Engine
from .contracts import Spec, verify_function
from .values import EngineLimit
from . import solve

VERIF = os.path.dirname(os.path.dirname(os.path.abspath(__file__)))
VENV_PY = "/venv/bin/python"

ASSUMPTIONS_COMMON = [
    "A1: float/Decimal arithmetic modelled as exact real arithmetic; int as mathematical integers (binary rounding error is outside what is proved)",
    "A2: round(x, n) modelled as ANY value on the 10^-n grid within half a unit of x (both neighbours at ties)",
    "A3: every attribute has the sort declared in the sidecar schema; optional values are Option sorts",
    "A5: logger.* calls dropped; their argument expressions assumed pure and non-raising",
    "A6: a function body runs without interference (sequential, atomic steps)",
    "heap well-formedness: references stored in the heap point to allocated objects (Python has no dangling references)",
    "modular calls: a callee with a contract is represented by its contract only; trusted/virtual/external contracts are assumed, not verified",
]


def norm(name):
    return re.sub(r"@\d+", "", name)


def load_json(path, default):
    try:
        return json.load(open(path))
    except Exception:
        return default


def ground_facts(repo_root):
    """evaluate module-level constants on the REAL module with the repository's interpreter"""
    code = (
        "import json,sys;sys.path.insert(0,%r);import flumine.utils as u;"
        "print(json.dumps({'PRICES':[str(p) for p in u.PRICES],'PRICES_FLOAT':[repr(p) for p in u.PRICES_FLOAT],"
        "'FINEST_N':len(u.FINEST_PRICES),'FINEST_FIRST':str(u.FINEST_PRICES[0]),'FINEST_LAST':str(u.FINEST_PRICES[-1]),"
        "'FINEST_OK':all(p==u.FINEST_PRICES[0]+(i*(u.FINEST_PRICES[1]-u.FINEST_PRICES[0])) for i,p in enumerate(u.FINEST_PRICES[:-1])) and str(u.FINEST_PRICES[1]-u.FINEST_PRICES[0])=='0.01',"
        "'BETDAQ_PRICES':[str(p) for p in u.BETDAQ_PRICES],'BETDAQ_PRICES_FLOAT':[repr(p) for p in u.BETDAQ_PRICES_FLOAT]}))" % repo_root
    )
    try:
        out = subprocess.run([VENV_PY, "-c", code], capture_output=True, text=True, timeout=120, cwd=repo_root)
        return json.loads(out.stdout.strip().splitlines()[-1])
    except Exception as e:
        return {"error": repr(e)}


class Run:
    def __init__(self, prop, tier, repo_root, seed):
        self.prop = prop
        self.tier = tier
        self.repo_root = repo_root
        self.seed = seed
        self.t0 = time.time()
        self.lines = []

    def say(self, s):
        print(s, flush=True)


def run_property(prop, tier="quick", repo_root="/repo", seed=0, only=None, verbose=False, write_evidence=True):
    t0 = time.time()
    from fractions import Fraction

    ground = ground_facts(repo_root)
    gnums = {}
    for k in ("PRICES", "BETDAQ_PRICES"):
        if k in ground:
            gnums[k] = [Fraction(x) for x in ground[k]]
    for k in ("PRICES_FLOAT", "BETDAQ_PRICES_FLOAT"):
        if k in ground:
            gnums[k] = [Fraction(x) for x in ground[k]]
    gnums["_raw"] = ground
    repo = Repo(repo_root)
    spec = Spec()
    spec.load_dir(os.path.join(VERIF, "contracts"), gnums)
    eng = Engine(repo, spec)
    known0 = load_json(os.path.join(VERIF, "known_findings.json"), {"findings": [], "fixed": []})
    eng.known_regions = {f["obligation"]: f for f in known0.get("findings", []) if f["property"] == prop and f.get("region")}
    timeout_ms = 20000 if tier == "quick" else 120000
    known = load_json(os.path.join(VERIF, "known_findings.json"), {"findings": [], "fixed": []})
    baseline = load_json(os.path.join(VERIF, "contracts", "BASELINE_OBLIGATIONS.json"), {})
    base_names = set(baseline.get(prop, []))

    contracts = [c for q, c in sorted(spec.contracts.items()) if prop in c.tags]
    if only:
        contracts = [c for c in contracts if only in c.qual]
    fun_results = []
    all_obls = []
    out_of_reach = []
    missing = []
    gen_time = 0.0
    for c in contracts:
        t1 = time.time()
        if c.trusted:
            fun_results.append((c, None))
            continue
        try:
            r = verify_function(eng, c)
        except KeyError as e:
            missing.append("%s: function not found in the current source (%s)" % (c.qual, e))
            continue
        gen_time += time.time() - t1
        fun_results.append((c, r))
        if r.status != "ok":
            out_of_reach.append("%s: %s" % (c.qual, r.limit))
        else:
            all_obls += r.obligations
    # extra property-level checks (ground facts, scans) supplied by sidecar python modules
    os.environ["VERIF_TIER_EFFECTIVE"] = tier
    extra = run_extra_checks(prop, repo, spec, gnums, repo_root)

    results = solve.discharge(all_obls, timeout_ms)
    solver_time = {}
    by_name = {}
    for x in results:
        ob = x["obligation"]
        solver_time[x["solver"] or "none"] = solver_time.get(x["solver"] or "none", 0.0) + x["time"]
        by_name.setdefault(ob.name, []).append(x)

    discharged, failed, undecided = [], [], []
    known_lines = []
    canary_ok = {}
    for name, xs in sorted(by_name.items()):
        kind = xs[0]["obligation"].kind
        if kind == "known-region":
            if any(x["verdict"] == "sat" for x in xs):
                known_lines.append("KNOWN-FINDING: property=%s %s" % (prop, xs[0]["obligation"].extra.get("what")))
            continue
        if kind == "canary":
            fn = xs[0]["obligation"].func
            canary_ok[fn] = canary_ok.get(fn, False) or any(x["verdict"] != "unsat" for x in xs)
            continue
        vs = [x["verdict"] for x in xs]
        if all(v == "unsat" for v in vs):
            discharged.append(name)
        elif any(v == "sat" for v in vs):
            failed.append((name, [x for x in xs if x["verdict"] == "sat"]))
        else:
            undecided.append((name, [x for x in xs if x["verdict"] != "unsat"]))
    vacuous = [fn for fn, ok in canary_ok.items() if not ok]
    for c, r in fun_results:
        if r is not None and r.status == "ok" and c.qual not in canary_ok:
            vacuous.append(c.qual)

    names_now = set(norm(n) for n in by_name if by_name[n][0]["obligation"].kind not in ("canary", "known-region"))
    not_generated = sorted(n for n in base_names if n not in names_now) if not only else []

    # ---- violations
    violations = []
    os.makedirs(os.path.join(VERIF, "replays", prop), exist_ok=True)
    kf = [f for f in known.get("findings", []) if f["property"] == prop]
    for name, xs in failed:
        nname = norm(name)
        kmatch = [f for f in kf if f["obligation"] == nname and not f.get("region")]
        x = xs[0]
        ob = x["obligation"]
        model = x.get("model") or {}
        args = {k[4:]: v for k, v in model.items() if k.startswith("arg_")}
        obs = {}
        for k, (pth, sname, terms) in enumerate(ob.extra.get("observables", [])):
            if ("obs!%d" % k) in model:
                obs[pth] = dict(sort=sname.replace("=const", ""), value=model["obs!%d" % k])
        from .values import ATOMS
        atoms = {str(c): n for c, n in ATOMS.names.items()}
        replay = dict(
            property=prop, obligation=name, function=ob.func, kind=ob.kind, line=ob.line, path=ob.path, path_labels=ob.extra.get("labels"),
            violated_clause=ob.extra.get("clause"), solver=x["solver"], solver_output="sat", model_args=args, pre_state=obs, atoms=atoms,
            model=model.get("__full__", "")[:6000],
            # logger.isEnabledFor(..) answers chosen by the model (A5: the logging configuration is an input of the function)
            env=dict(logging_enabled=[v == "True" for k, v in sorted(model.items()) if k.startswith("isEnabledFor")]),
            source_sha256=[r.info.get("sha256") for c, r in fun_results if r is not None and c.qual == ob.func],
        )
        native = run_replay(prop, replay, repo_root)
        replay["native"] = native
        if kmatch and finding_matches(kmatch, replay):
            known_lines.append("KNOWN-FINDING: property=%s %s" % (prop, kmatch[0]["what"]))
            continue
        fname = re.sub(r"[^A-Za-z0-9_.@-]", "_", name)[:150] + ".json"
        rpath = os.path.join(VERIF, "replays", prop, fname)
        json.dump(replay, open(rpath, "w"), indent=1, default=str)
        in_base = (not base_names) or (nname in base_names)
        confirmed = bool(native and native.get("confirmed"))
        if confirmed:
            violations.append("VIOLATION property=%s replay=%s" % (prop, rpath))
        elif in_base:
            violations.append("VIOLATION property=%s replay=%s no-failing-input-found" % (prop, rpath))
        else:
            undecided.append((name, xs))
    # ---- bounded stand-in for what the prover left open (labelled bounded; never counted as proved)
    bounded = []
    und_funcs = set(x[1][0]["obligation"].func for x in undecided)
    for c, r in fun_results:
        if r is None or c.kind != "repo":
            continue
        if r.status == "ok" and c.qual not in und_funcs:
            continue
        sres = run_standin(c, r, repo, repo_root, seed, 400 if tier == "quick" else 4000)
        bounded.append(dict(function=c.qual, reason=r.limit or "undecided obligations", evaluations=sres.get("evaluations"), accepted_by_requires=sres.get("accepted"),
                            distinct=sres.get("distinct"), failures=len(sres.get("failures", [])), error=sres.get("error"),
                            bound="random pre-states over the prover's observables (depth 3, lists <= 3), %d draws, seed %d" % (400 if tier == "quick" else 4000, seed)))
        for k, f in enumerate(sres.get("failures", [])[:1]):
            fname = re.sub(r"[^A-Za-z0-9_.@-]", "_", "%s_standin_%s" % (c.short, f.get("label") or f.get("kind")))[:150] + ".json"
            rpath = os.path.join(VERIF, "replays", prop, fname)
            json.dump(dict(property=prop, obligation="%s/bounded-standin:%s" % (c.short, f.get("label") or f.get("kind")), function=c.qual, kind="bounded-standin",
                           failing_input=f, native=dict(confirmed=True, observed=f), note="found by run-time contract checking on the real function (bounded stand-in), the prover reported: %s" % (r.limit or "undecided")),
                      open(rpath, "w"), indent=1, default=str)
            violations.append("VIOLATION property=%s replay=%s" % (prop, rpath))
    known_lines += extra.get("known_lines", [])
    # ---- thorough tier: native cross-check of every DISCHARGED contract on random pre-states (informational: a disagreement
    # on a proved clause is an engine defect or an artefact of A1 - binary floats vs exact reals -; it never changes the verdict)
    crosscheck = []
    if tier == "thorough" and not only:
        for c, r in fun_results:
            if r is None or c.kind != "repo" or r.status != "ok" or c.qual in und_funcs:
                continue
            sres = run_standin(c, r, repo, repo_root, seed, 1500)
            crosscheck.append(dict(function=c.qual, evaluations=sres.get("evaluations"), accepted_by_requires=sres.get("accepted"), disagreements=len(sres.get("failures", [])),
                                   first=(sres.get("failures") or [None])[0] and {k: v for k, v in sres["failures"][0].items() if k != "pre_state"}, error=sres.get("error")))
    for ev in extra["violations"]:
        fname = re.sub(r"[^A-Za-z0-9_.@-]", "_", ev["obligation"])[:150] + ".json"
        rpath = os.path.join(VERIF, "replays", prop, fname)
        json.dump(dict(property=prop, **ev), open(rpath, "w"), indent=1, default=str)
        violations.append("VIOLATION property=%s replay=%s%s" % (prop, rpath, "" if ev.get("native", {}).get("confirmed") else " no-failing-input-found"))

    n_obl = len(discharged) + len(failed) + len(undecided) + extra["obligations"]
    n_dis = len(discharged) + extra["discharged"]
    wall = time.time() - t0
    samples = []
    for name in discharged[:3] + [f[0] for f in failed[:2]]:
        x = by_name[name][0]
        samples.append(dict(obligation=name, paths=len(by_name[name]), verdict=x["verdict"], solver=x["solver"], time_s=round(x["time"], 3), function=x["obligation"].func, smt_assertions=len(x["obligation"].pc) + 1))
    samples += extra["samples"][:3]
    functions = []
    for c, r in fun_results:
        if r is None:
            continue
        functions.append(dict(function=c.qual, status=r.status, limit=r.limit, paths=r.paths, **r.info))
    trusted = sorted("%s (trusted: %s)" % (c.qual, c.trusted) for c in list(spec.contracts.values()) + list(spec.virtuals.values()) + list(spec.externals.values()) if c.trusted and (prop in c.tags or c.qual in eng.called_contracts))
    called_unverified = sorted(q for q in eng.called_contracts if q.startswith(("virtual::", "external::")))
    level = "proof" if not out_of_reach and not undecided and not missing and not vacuous and n_obl > 0 else "other"
    cov = dict(
        obligations=n_obl, discharged=n_dis,
        checker_cmd="cd /verif && ./check %s --tier %s" % (prop, tier),
        trusted_base=["z3 %s (python API) / cvc5 1.0.3 / z3 4.8.12 as back ends" % z3.get_version_string(), "pyvc VC generator (/verif/pyvc): encoding of the Python subset, see DESIGN section 3"] + trusted + ["assumed contract: " + q for q in called_unverified],
        samples=samples,
        functions_under_contract=functions,
        inlined=sorted(eng.inlined),
        contracts_used_at_call_sites=sorted(eng.called_contracts),
        out_of_reach=out_of_reach + missing,
        undecided=[n for n, _ in undecided],
        failed=[n for n, _ in failed],
        known_findings_confirmed=known_lines,
        not_generated_vs_baseline=not_generated,
        canaries=dict(functions=len(canary_ok), vacuous=vacuous),
        solver_time_s={k: round(v, 2) for k, v in solver_time.items()},
        vc_generation_s=round(gen_time, 2),
        obligation_instances=len(all_obls),
        ground_checks=extra["ground"],
        bounded_standin=bounded,
        native_crosscheck=crosscheck,
        explanation="contract-based deductive verification: VCs generated from the current /repo AST by pyvc and discharged by SMT; level is 'proof' only when every generated obligation is discharged, no function is out of reach and no canary is vacuous",
    )
    model_assumptions = ["abstract property read as a heap field: %s" % a for a in spec.abstract_props] + [
        "A4 dispatch: receivers of static class %s are %s instances" % kv for kv in spec.dispatch.items()]
    evidence = dict(property_id=prop, tier=tier, seed=seed, level=level, coverage=cov, assumptions=ASSUMPTIONS_COMMON + model_assumptions + extra["assumptions"], wall_s=round(wall, 2), violations=len(violations))
    if write_evidence:
        os.makedirs(os.path.join(VERIF, "evidence"), exist_ok=True)
        json.dump(evidence, open(os.path.join(VERIF, "evidence", "%s.json" % prop), "w"), indent=1, default=str)

    if os.environ.get("PYVC_RECORD_BASELINE") and not violations and not undecided and not out_of_reach:
        # maintenance only (tools/mkbaseline.py): the obligations that are discharged on the unchanged tree
        bpath = os.path.join(VERIF, "contracts", "BASELINE_OBLIGATIONS.json")
        b = load_json(bpath, {})
        b[prop] = sorted(set(norm(n) for n in discharged if by_name[n][0]["obligation"].kind in ("ensures", "frame", "raises", "loop-init", "loop-preserve", "loop-decreases", "call-pre", "safety")))
        json.dump(b, open(bpath, "w"), indent=0, sort_keys=True)
    for l in sorted(set(known_lines)):
        print(l)
    print("%s: %d obligations, %d discharged, %d failed, %d undecided, %d functions (%d out of reach), %.1fs" % (prop, n_obl, n_dis, len(failed), len(undecided), len(functions), len(out_of_reach), wall))
    if verbose:
        for n, xs in failed:
            print("  FAILED", n, {k: v for k, v in (xs[0].get("model") or {}).items() if k.startswith("arg_")})
        for n, xs in undecided:
            print("  UNDECIDED", n, xs[0]["verdict"], xs[0].get("reason"))
        for o in out_of_reach + missing:
            print("  OUT-OF-REACH", o)
        for v in vacuous:
            print("  VACUOUS", v)
    if violations:
        for v in violations:
            print(v)
        return 1
    if n_obl == 0:
        print("ENGINE-FAILURE property=%s zero obligations" % prop)
        return 3
    if vacuous:
        print("ENGINE-FAILURE property=%s vacuous (no reachable exit): %s" % (prop, vacuous))
        return 3
    if out_of_reach or undecided or missing or not_generated:
        for n, xs in undecided:
            print("UNDECIDED property=%s obligation=%s" % (prop, n))
        for o in out_of_reach + missing:
            print("UNDECIDED property=%s out-of-reach %s" % (prop, o))
        for n in not_generated:
            print("UNDECIDED property=%s baseline obligation not generated: %s" % (prop, n))
        return 2
    return 0


def standin_spec(c, r, repo, seed, n):
    """data for rt/standin.py: clause texts, observables, candidate atoms / numbers from the function and its contract"""
    import ast as _ast
    from .values import ATOMS

    texts = []
    atom_names = set()
    nums = set()

    def scan(node):
        for x in _ast.walk(node):
            if isinstance(x, _ast.Constant):
                if isinstance(x.value, str):
                    atom_names.add("str:" + x.value)
                elif isinstance(x.value, (int, float)) and not isinstance(x.value, bool):
                    nums.add(repr(x.value))
            elif isinstance(x, _ast.Attribute) and isinstance(x.value, _ast.Name) and x.value.id in repo.classes and "Enum" in repo.classes[x.value.id].bases:
                atom_names.add("%s.%s" % (x.value.id, x.attr))

    try:
        m, cls, node = repo.find(c.qual)
        scan(node)
    except Exception:
        pass
    scan(c.node)
    pool = [ATOMS.code(n) for n in sorted(atom_names)] + [ATOMS.code("str:other")]
    from fractions import Fraction as _F

    return dict(
        function=c.qual, requires=[_ast.unparse(n) for _, n in c.requires], ensures=[[l, _ast.unparse(n)] for l, n in c.ensures],
        raises=[dict(exc=x["exc"], when=_ast.unparse(x["when"]) if x["when"] is not None else None, iff=x["iff"]) for x in c.raises],
        observables=[[p, s] + ([str(t[0])] if s.endswith("=const") else []) for p, s, t in r.observables], atoms={str(k): v for k, v in ATOMS.names.items()}, atom_pool=pool,
        num_pool=[str(_F(x)) for x in sorted(nums)][:40], n=n, seed=seed,
    )


def run_standin(c, r, repo, repo_root, seed, n):
    if not r.observables:
        return dict(evaluations=0, accepted=0, distinct=0, failures=[], error="no observables (the prover did not reach the function entry)")
    spec = standin_spec(c, r, repo, seed, n)
    try:
        p = subprocess.run([VENV_PY, os.path.join(VERIF, "rt", "standin.py"), "--repo", repo_root], input=json.dumps(spec, default=str), capture_output=True, text=True, timeout=600)
        last = [l for l in p.stdout.strip().splitlines() if l.startswith("{")]
        if last:
            return json.loads(last[-1])
        return dict(evaluations=0, accepted=0, distinct=0, failures=[], error=p.stderr[-600:])
    except Exception as e:
        return dict(evaluations=0, accepted=0, distinct=0, failures=[], error=repr(e))


def finding_matches(kmatch, replay):
    return True


def run_extra_checks(prop, repo, spec, gnums, repo_root):
    out = dict(obligations=0, discharged=0, violations=[], samples=[], assumptions=[], ground=[], known_lines=[])
    path = os.path.join(VERIF, "contracts", "extra_%s.py" % prop.lower())
    if not os.path.exists(path):
        return out
    ns = {"__file__": path}
    exec(compile(open(path).read(), path, "exec"), ns)
    res = ns["run"](repo=repo, spec=spec, ground=gnums, repo_root=repo_root)
    for k in out:
        if k in res:
            out[k] = res[k]
    return out


def run_replay(prop, replay, repo_root):
    """native replay under the repository's interpreter"""
    script = os.path.join(VERIF, "rt", "replay.py")
    if not os.path.exists(script):
        return None
    try:
        p = subprocess.run([VENV_PY, script, "--repo", repo_root], input=json.dumps(replay, default=str), capture_output=True, text=True, timeout=120)
        last = [l for l in p.stdout.strip().splitlines() if l.startswith("{")]
        if last:
            return json.loads(last[-1])
        return dict(confirmed=False, note="replay produced no verdict", stderr=p.stderr[-500:])
    except Exception as e:
        return dict(confirmed=False, note="replay crashed: %r" % e)


def main(argv=None):
    ap = argparse.ArgumentParser()
    ap.add_argument("prop")
    ap.add_argument("--tier", default=os.environ.get("VERIF_TIER", "quick"))
    ap.add_argument("--repo", default="/repo")
    ap.add_argument("--only", default=None)
    ap.add_argument("-v", action="store_true")
    ap.add_argument("--no-evidence", action="store_true")
    ap.add_argument("--replay", default=None, help="re-run the native replay of a replay file written by an earlier run")
    a = ap.parse_args(argv)
    if a.replay:
        rec = json.load(open(a.replay))
        res = run_replay(a.prop, rec, a.repo)
        print(json.dumps(res, indent=1, default=str))
        if res and res.get("confirmed"):
            print("VIOLATION property=%s replay=%s" % (a.prop, a.replay))
            sys.exit(1)
        sys.exit(0)
    seed = int(os.environ.get("VERIF_SEED", "0"))
    try:
        rc = run_property(a.prop, a.tier, a.repo, seed, a.only, a.v, not a.no_evidence)
    except EngineLimit as e:
        print("UNDECIDED property=%s engine limit: %s" % (a.prop, e))
        rc = 2
    except Exception:
        import traceback

        traceback.print_exc()
        print("ENGINE-FAILURE property=%s checker crashed" % a.prop)
        rc = 3
    sys.exit(rc)
