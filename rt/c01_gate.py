"""Bounded native stand-in for C01 (never counted as proved): the gate on REAL objects.

Random positions are built in a real Market / Blotter through the real Transaction path (market.place_order /
market.replace_order with the default StrategyExposure control), orders are acknowledged and partly filled at random,
and after every ACCEPTED non-forced request the statement of C01 is checked by brute force:
  * the order's own worst-case loss (at the price/size it will rest with)   <= max_order_exposure
  * worst case over every combination of open-order fills on the selection <= max_selection_exposure   (tolerance 0.011: two roundings)
  * worst case over every admissible winner set on the market               <= max_market_exposure
Failures are tagged with the region of a recorded known finding when they fall into one:
  replace_lay_price_up   - REPLACE of a LAY order to a higher price is validated at the OLD price (probe P3)
  replace_market_clause  - REPLACE: the order is excluded from its own market check (exclusion == new_order)   (probe P3)
usage: c01_gate.py --repo R --n N --seed S
"""
import argparse, itertools, json, os, random, sys
from unittest import mock

ap = argparse.ArgumentParser(); ap.add_argument("--repo", default="/repo"); ap.add_argument("--n", type=int, default=200); ap.add_argument("--seed", type=int, default=0)
a = ap.parse_args()
sys.path.insert(0, a.repo); os.chdir(a.repo)
import flumine
assert os.path.abspath(flumine.__file__).startswith(os.path.abspath(a.repo))
from flumine.markets.market import Market
from flumine.order.trade import Trade
from flumine.order.order import OrderStatus
from flumine.order.ordertype import LimitOrder, LimitOnCloseOrder, MarketOnCloseOrder, OrderTypes
from flumine.controls.tradingcontrols import StrategyExposure
from flumine.strategy.strategy import BaseStrategy
from flumine.clients.clients import ExchangeType

rnd = random.Random(a.seed)
PRICES = [1.01, 1.5, 2.0, 3.0, 5.5, 10.0, 50.0]
SIZES = [0.5, 1.0, 2.0, 2.5, 5.0, 10.0]
TOL = 0.0111


def contributions(o, price_override=None):
    """(fixed_win, fixed_lose, open) of one order for the brute force; open = (side, price, remaining) or None"""
    t = o.order_type
    if o.status in (OrderStatus.PENDING, OrderStatus.VIOLATION, OrderStatus.EXPIRED) and price_override is None and not getattr(o, "_count_anyway", False):
        return 0.0, 0.0, None
    if t.ORDER_TYPE == OrderTypes.LIMIT:
        line = t.price_ladder_definition == "LINE_RANGE"
        m = o.size_matched
        av = 2.0 if line else o.average_price_matched
        fw = fl = 0.0
        if m:
            if o.side == "BACK":
                fw, fl = (av - 1) * m, -m
            else:
                fw, fl = -(av - 1) * m, m
        r = o.size_remaining
        p = 2.0 if line else (price_override if price_override is not None else t.price)
        op = (o.side, p, r) if (not o.complete and r and p) else None
        return fw, fl, op
    if o.side == "BACK":
        return 0.0, -t.liability, None
    return -t.liability, 0.0, None


def worst(orders, overrides):
    fw = fl = 0.0
    opens = []
    for o in orders:
        w, l, op = contributions(o, overrides.get(id(o)))
        fw += w; fl += l
        if op:
            opens.append(op)
    bw = bl = None
    for mask in range(1 << len(opens)):
        w, l = fw, fl
        for i, (side, p, r) in enumerate(opens):
            if mask >> i & 1:
                if side == "BACK":
                    w += (p - 1) * r; l -= r
                else:
                    w -= (p - 1) * r; l += r
        bw = w if bw is None else min(bw, w)
        bl = l if bl is None else min(bl, l)
    return bw, bl


def order_loss(o, price):
    t = o.order_type
    if t.ORDER_TYPE == OrderTypes.LIMIT:
        if t.price_ladder_definition == "LINE_RANGE" or o.side == "BACK":
            return t.size
        return (price - 1) * t.size
    return t.liability


failures = []
evaluations = accepted = 0
distinct = set()
for it in range(a.n):
    lim = lambda: rnd.choice([None, 5.0, 10.0, 20.0, 50.0])
    strategy = BaseStrategy(market_filter={}, max_order_exposure=lim(), max_selection_exposure=lim(), max_market_exposure=lim(), max_live_trade_count=100, max_trade_count=1000)
    fl = mock.Mock()
    fl.clients.simulated = False
    client = mock.Mock(trading_controls=[], EXCHANGE=ExchangeType.BETFAIR, paper_trade=False)
    fl.clients.get_default.return_value = client
    nsel = rnd.randint(1, 3)
    active = rnd.randint(nsel, nsel + 2)
    nwin = rnd.randint(1, min(2, active))
    book = mock.Mock(runners=[], status="OPEN", number_of_winners=nwin, number_of_active_runners=active, publish_time=0, bet_delay=0, version=1)
    market = Market(fl, "1.1", book)
    fl.markets.markets = {"1.1": market}
    fl.trading_controls = [StrategyExposure(fl)]
    orders = []
    for step in range(rnd.randint(1, 7)):
        evaluations += 1
        do_replace = orders and rnd.random() < 0.35
        cands = [o for o in orders if o.status == OrderStatus.EXECUTABLE and o.order_type.ORDER_TYPE == OrderTypes.LIMIT and o.size_remaining]
        region = None
        if do_replace and cands:
            o = rnd.choice(cands)
            new_price = rnd.choice([p for p in PRICES if p != o.order_type.price])
            try:
                ok = market.replace_order(o, new_price)
            except Exception as e:
                continue
            if not ok:
                break  # refused: the (live) order was marked a violation - another property's concern (C02)
            kind, price_after, target = "REPLACE", new_price, o
            if o.side == "LAY" and new_price > o.order_type.price and o.order_type.price_ladder_definition != "LINE_RANGE":
                region = "replace_lay_price_up"
        else:
            sel = rnd.randint(1, nsel)
            trade = Trade("1.1", sel, 0, strategy)
            k = rnd.choice(["L", "L", "L", "LINE", "LOC", "MOC"])
            side = rnd.choice(["BACK", "LAY"])
            if k in ("L", "LINE"):
                ot = LimitOrder(rnd.choice(PRICES), rnd.choice(SIZES), price_ladder_definition="LINE_RANGE" if k == "LINE" else "CLASSIC")
            elif k == "LOC":
                ot = LimitOnCloseOrder(rnd.choice(SIZES), rnd.choice(PRICES))
            else:
                ot = MarketOnCloseOrder(rnd.choice(SIZES))
            o = trade.create_order(side, ot)
            try:
                ok = market.place_order(o)
            except Exception as e:
                failures.append(dict(kind="exception in place_order", exc=repr(e)))
                break
            if not ok:
                continue
            orders.append(o)
            kind, price_after, target = "PLACE", getattr(ot, "price", None), o
        accepted += 1
        # ---- the statement, brute force, with the order counted in full as it will rest
        mine = [x for x in orders]
        target._count_anyway = True
        overrides = {id(target): price_after} if (kind == "REPLACE") else {}
        if kind == "PLACE" and target.order_type.ORDER_TYPE == OrderTypes.LIMIT:
            # unacknowledged yet: it rests with its full size
            target.responses.current_order = None
        e = order_loss(target, price_after)
        problems = []
        if strategy.max_order_exposure is not None and e > strategy.max_order_exposure + 1e-9:
            problems.append(("order", e, strategy.max_order_exposure))
        sel_orders = [x for x in mine if x.lookup == target.lookup]
        w, l = worst(sel_orders, overrides)
        if strategy.max_selection_exposure is not None and -min(w, l) > strategy.max_selection_exposure + TOL:
            # only the side the new order adds risk to is the gate's business (the other side was checked when it was built up)
            side_worst = l if (target.side == "BACK") else w
            if -side_worst > strategy.max_selection_exposure + TOL:
                problems.append(("selection", -side_worst, strategy.max_selection_exposure))
        if strategy.max_market_exposure is not None:
            per = {}
            for lk in sorted({x.lookup for x in mine}):
                per[lk] = worst([x for x in mine if x.lookup == lk], overrides)
            runners = list(per) + [("x", i) for i in range(active - len(per))]
            best = None
            for winners in itertools.combinations(range(len(runners)), min(nwin, len(runners))):
                tot = sum((per.get(r, (0.0, 0.0))[0] if i in winners else per.get(r, (0.0, 0.0))[1]) for i, r in enumerate(runners))
                best = tot if best is None else min(best, tot)
            if -best > strategy.max_market_exposure + 3 * TOL:
                problems.append(("market", -best, strategy.max_market_exposure))
        target._count_anyway = False
        distinct.add((kind, target.side, target.order_type.ORDER_TYPE.name, strategy.max_order_exposure, strategy.max_selection_exposure, strategy.max_market_exposure, len(orders)))
        for clause, got, limit in problems:
            reg = region
            if reg is None and kind == "REPLACE" and clause == "market":
                reg = "replace_market_clause"
            if reg is not None and any(f.get("region") == reg for f in failures):
                continue  # one example per known region is enough
            if kind == "REPLACE" and clause == "market":
                reg = "replace_market_clause"
            if kind == "REPLACE" and clause in ("order", "selection") and region is None:
                reg = None
            failures.append(dict(kind="accepted %s breaches the %s limit" % (kind, clause), region=reg, worst_case_loss=round(got, 4), limit=limit, side=target.side,
                                 order_type=target.order_type.ORDER_TYPE.name, price=getattr(target.order_type, "price", None), price_after=price_after,
                                 size=getattr(target.order_type, "size", None), limits=[strategy.max_order_exposure, strategy.max_selection_exposure, strategy.max_market_exposure],
                                 position=[dict(side=x.side, type=x.order_type.ORDER_TYPE.name, price=getattr(x.order_type, "price", None), size=getattr(x.order_type, "size", None),
                                                liability=getattr(x.order_type, "liability", None), status=x.status.name, matched=x.size_matched, sel=x.selection_id) for x in mine]))
        if any(f.get("region") is None for f in failures):
            break
        # ---- acknowledge, then random fills (acknowledgement discipline: nothing stays pending)
        if kind == "REPLACE":
            # the exchange cancels the old order and places the replacement at the new price
            target.execution_complete()
            t2 = target.trade.create_order(target.side, LimitOrder(price_after, target.size_remaining or target.order_type.size, price_ladder_definition=target.order_type.price_ladder_definition))
            t2.client = target.client
            market.blotter[t2.id] = t2
            t2.status = OrderStatus.EXECUTABLE
            t2.bet_id = "r%d" % len(orders)
            t2.responses.current_order = mock.Mock(size_matched=0.0, size_remaining=t2.order_type.size, average_price_matched=0.0)
            orders.append(t2)
        else:
            target.bet_id = "b%d" % len(orders)
            target.executable()
            if target.order_type.ORDER_TYPE == OrderTypes.LIMIT:
                m = rnd.choice([0.0, 0.0, target.order_type.size, round(target.order_type.size / 2, 2)])
                target.responses.current_order = mock.Mock(size_matched=m, size_remaining=round(target.order_type.size - m, 2), average_price_matched=target.order_type.price if m else 0.0)
                if m == target.order_type.size:
                    target.execution_complete()
    if any(f.get("region") is None for f in failures):
        break
print(json.dumps(dict(evaluations=evaluations, accepted=accepted, distinct=len(distinct), failures=failures[:6])))
