"""Bounded native stand-in for the queue-position clause of C06 (never counted as proved): a resting limit order starts
behind exactly the size shown at its price on the side of the book it joins (0 when that price is not shown), and a lone
resting order is then filled out of half the newly traded volume at or through its price, only after the volume queued
ahead of it at arrival has traded: after every update  matched == min(size, max(0, sum(eligible traded)/2 - queue))  (up
to 0.01 per traded level: the engine rounds each fill to pennies).
Real BetfairOrder / SimulatedOrder.place / SimulatedOrder._process_traded on random valid books (back side descending,
lay side ascending) and random per-update traded-volume maps at prices below, at and above the limit.
usage: c06_piq.py --repo R --n N --seed S"""
import argparse, json, os, random, sys
from unittest import mock
ap = argparse.ArgumentParser(); ap.add_argument("--repo", default="/repo"); ap.add_argument("--n", type=int, default=2000); ap.add_argument("--seed", type=int, default=0)
a = ap.parse_args()
sys.path.insert(0, a.repo); os.chdir(a.repo)
import flumine
assert os.path.abspath(flumine.__file__).startswith(os.path.abspath(a.repo))
from flumine.order.trade import Trade
from flumine.order.ordertype import LimitOrder
LADDER = [1.5, 1.6, 1.7, 1.8, 1.9, 2.0, 2.1, 2.2, 2.3, 2.4, 2.5, 2.6]
rnd = random.Random(a.seed)
failures = []; evaluations = 0; distinct = set()
for it in range(a.n):
    m = rnd.randint(3, len(LADDER) - 4)
    nb, nl = rnd.randint(0, 3), rnd.randint(0, 3)
    atb = [{"price": LADDER[m - 1 - i], "size": rnd.choice([1.0, 5.0, 20.0, 40.0])} for i in range(nb)]   # descending
    atl = [{"price": LADDER[m + 1 + i], "size": rnd.choice([1.0, 5.0, 20.0, 40.0])} for i in range(nl)]   # ascending
    side = rnd.choice(["BACK", "LAY"]); price = rnd.choice(LADDER); size = rnd.choice([2.0, 10.0])
    strategy = mock.Mock()
    trade = Trade("1.1", 7, 0, strategy)
    order = trade.create_order(side, LimitOrder(price, size))
    order.client = mock.Mock(best_price_execution=True, simulated_full_match=False)
    runner = mock.Mock(selection_id=7, handicap=0, status="ACTIVE"); runner.ex.available_to_back = atb; runner.ex.available_to_lay = atl
    book = mock.Mock(status="OPEN", version=1, runners=[runner], publish_time_epoch=1)
    pkg = mock.Mock(market_version=None); pkg.client = order.client
    resp = order.simulated.place(pkg, book, order.create_place_instruction(), 1)
    evaluations += 1
    if resp.status != "SUCCESS" or order.simulated.size_matched > 0:
        continue  # crossed: not resting
    joined = atl if side == "BACK" else atb   # a resting back offer joins the lay side of the book and vice versa
    expected = next((l["size"] for l in joined if l["price"] == price), 0.0)
    distinct.add((side, price, nb, nl, expected))
    if abs(order.simulated._piq - expected) > 1e-9:
        failures.append(dict(kind="queue position at arrival != size shown at the order's price", side=side, price=price, available_to_back=atb, available_to_lay=atl, piq=order.simulated._piq, expected=expected))
        break
    # ---- resting fills: a few updates of newly traded volume (property statement: half of the eligible volume, queue first)
    queue = expected
    eligible_total = 0.0
    levels = 0
    history = []
    for upd in range(rnd.randint(1, 4)):
        traded = {}
        for _ in range(rnd.randint(1, 3)):
            traded[rnd.choice(LADDER)] = rnd.choice([1.0, 2.0, 4.0, 10.0, 30.0, 80.0])
        history.append(dict(traded))
        for tp, ts in traded.items():
            if (side == "BACK" and tp >= price) or (side == "LAY" and tp <= price):
                eligible_total += ts
                levels += 1
        order.simulated._process_traded(2 + upd, traded)
        evaluations += 1
        want = min(size, max(0.0, eligible_total / 2 - queue))
        got = order.simulated.size_matched
        if abs(got - want) > 0.01 * levels + 1e-9:
            failures.append(dict(kind="lone resting order: matched != min(size, max(0, eligible traded / 2 - queue ahead at arrival))", side=side, price=price, size=size,
                                 queue_at_arrival=queue, traded_updates=history, matched=got, expected=want))
            break
    if failures:
        break
print(json.dumps(dict(evaluations=evaluations, distinct=len(distinct), failures=failures)))
