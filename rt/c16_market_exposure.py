"""Bounded stand-in for Blotter.market_exposure (out of the prover's reach: set of symbolic keys, sorted()[:k]).

Real Blotter / Trade / BetfairOrder objects; random small positions (<= 4 selections x <= 4 orders, all sides, types, statuses);
market_exposure is compared with the brute-force minimum, over every set of number_of_winners winners among the active runners,
of  sum_{winners} win_r + sum_{others} lose_r  where (win_r, lose_r) are the per-selection worst cases reported by get_exposures
(proved against the specification by the prover).  Also exclusion / new_order "as if removed / added".
usage: c16_market_exposure.py --repo R --n N --seed S     -> last line JSON
"""
import argparse, itertools, json, os, random, sys
from unittest import mock

ap = argparse.ArgumentParser(); ap.add_argument("--repo", default="/repo"); ap.add_argument("--n", type=int, default=300); ap.add_argument("--seed", type=int, default=0)
a = ap.parse_args()
sys.path.insert(0, a.repo); os.chdir(a.repo)
import flumine
assert os.path.abspath(flumine.__file__).startswith(os.path.abspath(a.repo))
from flumine.markets.blotter import Blotter
from flumine.order.trade import Trade
from flumine.order.order import OrderStatus
from flumine.order.ordertype import LimitOrder, LimitOnCloseOrder, MarketOnCloseOrder

rnd = random.Random(a.seed)
PRICES = [1.01, 1.5, 2.0, 3.0, 5.5, 10.0, 50.0]
SIZES = [0.0, 0.01, 1.0, 2.5, 10.0]
STATUSES = [OrderStatus.PENDING, OrderStatus.EXECUTABLE, OrderStatus.EXECUTION_COMPLETE, OrderStatus.VIOLATION, OrderStatus.EXPIRED, OrderStatus.CANCELLING, OrderStatus.REPLACING]


def mk_order(strategy, sel):
    trade = Trade("1.1", sel, 0, strategy)
    kind = rnd.choice(["L", "L", "L", "LINE", "LOC", "MOC"])
    side = rnd.choice(["BACK", "LAY"])
    if kind in ("L", "LINE"):
        size = rnd.choice(SIZES[1:])
        ot = LimitOrder(rnd.choice(PRICES), size, price_ladder_definition="LINE_RANGE" if kind == "LINE" else "CLASSIC")
    elif kind == "LOC":
        ot = LimitOnCloseOrder(rnd.choice(SIZES[1:]), rnd.choice(PRICES))
    else:
        ot = MarketOnCloseOrder(rnd.choice(SIZES[1:]))
    o = trade.create_order(side, ot)
    o.client = None
    st = rnd.choice(STATUSES)
    o.status = st
    if st == OrderStatus.CANCELLING:
        o.update_data["size_reduction"] = rnd.choice([None, 0.5, 1.0])
    if st == OrderStatus.REPLACING:
        o.update_data["new_price"] = rnd.choice(PRICES)
    o.complete = st in (OrderStatus.EXECUTION_COMPLETE, OrderStatus.EXPIRED, OrderStatus.VIOLATION)
    if kind in ("L", "LINE"):
        m = rnd.choice([0.0, ot.size, round(ot.size / 2, 2)])
        o.responses.current_order = mock.Mock(size_matched=m, size_remaining=round(ot.size - m, 2) if not o.complete else rnd.choice([0.0, round(ot.size - m, 2)]), average_price_matched=rnd.choice(PRICES) if m else 0.0)
    return o


def spec_selection(orders, exclusion, new_order):
    """the property statement, brute force: worst profit over every combination of which open orders fill
    (each fully or not at all, at its limit price) for the selection winning and for it losing"""
    from flumine.order.ordertype import OrderTypes
    book = [o for o in orders if o is not exclusion]
    if new_order is not None and new_order is not exclusion:
        book.append(new_order)
    book = [o for o in book if o.status not in (OrderStatus.PENDING, OrderStatus.VIOLATION, OrderStatus.EXPIRED)]
    fixed_w = fixed_l = 0.0
    opens = []
    for o in book:
        t = o.order_type
        if t.ORDER_TYPE == OrderTypes.LIMIT:
            line = t.price_ladder_definition == "LINE_RANGE"
            m = o.size_matched
            a = 2.0 if line else o.average_price_matched
            if m:
                if o.side == "BACK":
                    fixed_w += (a - 1) * m; fixed_l += -m
                else:
                    fixed_w += -(a - 1) * m; fixed_l += m
            r = o.size_remaining
            p = 2.0 if line else t.price
            if not o.complete and r and p:
                opens.append((o.side, p, r))
        else:  # starting-price orders: the liability is lost on the losing outcome (I-3)
            if o.side == "BACK":
                fixed_l += -t.liability
            else:
                fixed_w += -t.liability
    best_w = best_l = None
    for mask in range(1 << len(opens)):
        w, l = fixed_w, fixed_l
        for i, (side, p, r) in enumerate(opens):
            if mask >> i & 1:
                if side == "BACK":
                    w += (p - 1) * r; l += -r
                else:
                    w += -(p - 1) * r; l += r
        best_w = w if best_w is None else min(best_w, w)
        best_l = l if best_l is None else min(best_l, l)
    return best_w, best_l


failures = []
evaluations = 0
distinct = set()
for it in range(a.n):
    strategy = mock.Mock(name="s")
    other = mock.Mock(name="other")
    b = Blotter("1.1")
    nsel = rnd.randint(1, 4)
    orders = []
    for sel in range(1, nsel + 1):
        for _ in range(rnd.randint(0, 4)):
            o = mk_order(rnd.choice([strategy, strategy, other]), sel)
            b[o.id] = o
            orders.append(o)
            if o.complete and rnd.random() < 0.8:
                b.complete_order(o)  # the real lifecycle: a completed order leaves the live list (and nothing else: it still counts)
    active = rnd.randint(nsel, nsel + 3)
    nwin = rnd.randint(0, min(3, active))
    mb = mock.Mock(number_of_active_runners=active, number_of_winners=nwin)
    mine = [o for o in orders if o.trade.strategy is strategy]
    exclusion = rnd.choice([None] + mine) if mine else None
    new_order = rnd.choice([None, mk_order(strategy, rnd.randint(1, nsel + 1)), exclusion])
    if new_order is not None and new_order.lookup[1] > active:
        continue
    try:
        got = b.market_exposure(strategy, mb, exclusion=exclusion, new_order=new_order)
    except Exception as e:
        failures.append(dict(kind="exception", exc=repr(e)))
        break
    # brute force over winner sets
    lookups = sorted({o.lookup for o in mine} | ({new_order.lookup} if new_order is not None else set()))
    per = {}
    bad = False
    for lk in lookups:
        no = new_order if (new_order is not None and new_order.lookup == lk) else None
        ex = b.get_exposures(strategy, lk, exclusion=exclusion, new_order=no)
        per[lk] = (ex["worst_possible_profit_on_win"], ex["worst_possible_profit_on_lose"])
        sw, sl = spec_selection([o for o in mine if o.lookup == lk], exclusion, no)
        # the single figure reported per selection: the worst-case LOSS (never negative: a book that is green on both outcomes has none)
        if any(o.lookup == lk for o in mine):
            se = b.selection_exposure(strategy, lk)
            sw0, sl0 = spec_selection([o for o in mine if o.lookup == lk], None, None)
            want = max(-min(sw0, sl0), 0.0)
            if abs(se - want) > 0.0101:
                failures.append(dict(kind="selection_exposure != max(-(worst case over win / lose), 0)", lookup=str(lk), reported=se, expected=want, worst_case=(sw0, sl0)))
                bad = True
                break
        if abs(sw - per[lk][0]) > 0.0101 or abs(sl - per[lk][1]) > 0.0101:
            failures.append(dict(kind="get_exposures != brute-force worst case over fill subsets", lookup=str(lk), reported=per[lk], expected=(sw, sl),
                                 orders=[dict(side=o.side, type=o.order_type.ORDER_TYPE.name, status=o.status.name, matched=o.size_matched, remaining=o.size_remaining,
                                              price=getattr(o.order_type, "price", None), update_data=dict(o.update_data)) for o in mine if o.lookup == lk]))
            bad = True
            break
    if bad:
        break
    runners = list(lookups) + [("x", i) for i in range(active - len(lookups))]
    best = None
    for winners in itertools.combinations(range(len(runners)), min(nwin, len(runners))):
        tot = 0.0
        for i, r in enumerate(runners):
            w, l = per.get(r, (0.0, 0.0))
            tot += w if i in winners else l
        best = tot if best is None else min(best, tot)
    evaluations += 1
    distinct.add((nsel, active, nwin, len(mine), exclusion is not None, new_order is not None, round(got, 2)))
    if abs(got - best) > 1e-6:
        failures.append(dict(kind="market_exposure != brute force worst case", got=got, expected=best, active=active, winners=nwin, per_selection={str(k): v for k, v in per.items()},
                             exclusion=exclusion is not None, new_order=new_order is not None and new_order is not exclusion, same_object_as_exclusion=new_order is exclusion and exclusion is not None))
        break
print(json.dumps(dict(evaluations=evaluations, distinct=len(distinct), failures=failures)))
