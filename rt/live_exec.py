"""Bounded stand-in (never counted as proved) for the live path: C12, C11, C15 (and the live part of C03) against an exchange double.

Real Flumine / BetfairClient / BetfairExecution (its thread pool drained after every step) / Market / Transaction / orders /
process_current_orders; only `betting_client` is a fake exchange that keeps its own table of bets, answers
placeOrders / cancelOrders / updateOrders / replaceOrders with REAL betfairlightweight resources according to a scripted
per-instruction outcome (SUCCESS / FAILURE x error code / TIMEOUT; cancel reports shuffled or dropped), raises APIError on
chosen attempts, matches / lapses bets on its own, and produces order-stream snapshots (real CurrentOrders resources).

After every answered call (C12): every order of the request is EXECUTABLE or EXECUTION_COMPLETE (PENDING only for a placement
that may yet be accepted); none CANCELLING / UPDATING / REPLACING; no trade PENDING; a report was applied to the order it
belongs to; transactions charged == bets submitted (placement / replacement instructions of answered calls) + failed
instructions reported; a request is attempted at most 1 + max_retries times.
After the latest snapshot was processed with no request outstanding (C11): each local order agrees with the exchange on bet id,
sizes and completeness, complete orders left the live list, their trades completed; a FRESH framework instance adopts every
exchange order of a known strategy exactly once into the right market / strategy (duplicated snapshots change nothing) and
ignores unknown strategies.  Blotter coherence and bet-id look-ups (C15) and legal status logs (C03) are monitored throughout.

Kept outside (recorded known findings / stated limits): a request rejected as a whole (P11), exhausted PLACE retries (P9),
a TIMEOUT that the exchange nevertheless performed (the double does nothing on TIMEOUT), requests refused by a control (P1).
usage: live_exec.py --repo R --n N --seed S
"""
import argparse, json, logging, os, random, sys
from unittest import mock
from concurrent.futures import ThreadPoolExecutor

ap = argparse.ArgumentParser(); ap.add_argument("--repo", default="/repo"); ap.add_argument("--n", type=int, default=40); ap.add_argument("--seed", type=int, default=0)
a = ap.parse_args()
sys.path.insert(0, a.repo); os.chdir(a.repo)
import flumine
assert os.path.abspath(flumine.__file__).startswith(os.path.abspath(a.repo)), flumine.__file__
from betfairlightweight import resources
from betfairlightweight.exceptions import APIError
from betfairlightweight.resources.streamingresources import MarketDefinition
from flumine import Flumine, BaseStrategy, clients
from flumine.order.trade import Trade, TradeStatus
from flumine.order.order import OrderStatus
from flumine.order.ordertype import LimitOrder
from flumine.events.events import CurrentOrdersEvent

logging.disable(logging.CRITICAL)
MARKET_ID = "1.900000011"
SELS = (11, 22, 33)
FAIL_CODES = ["ERROR_IN_ORDER", "MARKET_SUSPENDED", "BET_TAKEN_OR_LAPSED", "INSUFFICIENT_FUNDS"]
LEGAL = {
    None: {OrderStatus.PENDING, OrderStatus.VIOLATION},
    OrderStatus.PENDING: {OrderStatus.EXECUTABLE, OrderStatus.EXECUTION_COMPLETE},
    OrderStatus.EXECUTABLE: {OrderStatus.EXECUTABLE, OrderStatus.CANCELLING, OrderStatus.UPDATING, OrderStatus.REPLACING, OrderStatus.EXECUTION_COMPLETE},
    OrderStatus.CANCELLING: {OrderStatus.EXECUTABLE, OrderStatus.EXECUTION_COMPLETE},
    OrderStatus.UPDATING: {OrderStatus.EXECUTABLE, OrderStatus.EXECUTION_COMPLETE},
    OrderStatus.REPLACING: {OrderStatus.EXECUTABLE, OrderStatus.EXECUTION_COMPLETE},
    OrderStatus.EXECUTION_COMPLETE: {OrderStatus.EXECUTION_COMPLETE},
}


class Exchange:
    """the double: table of bets keyed by bet id"""

    def __init__(self, rnd):
        self.rnd = rnd
        self._bet_id = 300000000000
        self.bets = {}
        self.plan = []          # outcomes for the next call, one per instruction
        self.api_errors = 0     # raise APIError on the next k attempts
        self.attempts = 0
        self.answered = []      # (kind, n_instructions, n_failure_reports)
        self.cancel_shuffle = False
        self.cancel_drop = False

    def new_id(self):
        self._bet_id += 1
        return str(self._bet_id)

    def _attempt(self):
        self.attempts += 1
        if self.api_errors > 0:
            self.api_errors -= 1
            raise APIError(None, "placeOrders", {}, "transport")

    def place_orders(self, market_id, instructions, **kw):
        self._attempt()
        reports = []
        nf = 0
        for ins, out in zip(instructions, self.plan):
            rep = {"status": out[0], "instruction": ins}
            if out[0] == "SUCCESS":
                bid = self.new_id()
                lo = ins["limitOrder"]
                self.bets[bid] = dict(bet_id=bid, ref=ins["customerOrderRef"], sel=ins["selectionId"], side=ins["side"], price=lo["price"], size=lo["size"], matched=0.0,
                                      cancelled=0.0, lapsed=0.0, status="EXECUTABLE", persistence=lo["persistenceType"])
                rep.update(betId=bid, placedDate="2022-04-19T18:00:00.000Z", averagePriceMatched=0.0, sizeMatched=0.0, orderStatus="EXECUTABLE")
            elif out[0] == "FAILURE":
                rep["errorCode"] = out[1]
                nf += 1
            reports.append(rep)
        self.answered.append(("PLACE", len(instructions), nf))
        return resources.PlaceOrders(elapsed_time=0.01, status="SUCCESS" if nf == 0 else "FAILURE", marketId=market_id, customerRef=kw.get("customer_ref"), instructionReports=reports)

    def cancel_orders(self, market_id, instructions, **kw):
        self._attempt()
        reports = []
        nf = 0
        for ins, out in zip(instructions, self.plan):
            b = self.bets[ins["betId"]]
            rep = {"status": out[0], "instruction": {"betId": ins["betId"], "sizeReduction": ins.get("sizeReduction")}}
            if out[0] == "SUCCESS":
                rem = round(b["size"] - b["matched"] - b["cancelled"] - b["lapsed"], 2)
                red = min(ins.get("sizeReduction") or rem, rem)
                b["cancelled"] = round(b["cancelled"] + red, 2)
                if round(b["size"] - b["matched"] - b["cancelled"] - b["lapsed"], 2) == 0:
                    b["status"] = "EXECUTION_COMPLETE"
                rep.update(sizeCancelled=red, cancelledDate="2022-04-19T18:00:01.000Z")
            elif out[0] == "FAILURE":
                if out[1] == "BET_TAKEN_OR_LAPSED":
                    self.match(ins["betId"], 1)  # the code means what it says: the bet was taken just before the cancel arrived
                rep["errorCode"] = out[1]
                nf += 1
            reports.append(rep)
        if self.cancel_shuffle:
            self.rnd.shuffle(reports)
        self.answered.append(("CANCEL", len(instructions), nf))
        return resources.CancelOrders(elapsed_time=0.01, status="SUCCESS" if nf == 0 else "FAILURE", marketId=market_id, customerRef=kw.get("customer_ref"), instructionReports=reports)

    def update_orders(self, market_id, instructions, **kw):
        self._attempt()
        reports = []
        nf = 0
        for ins, out in zip(instructions, self.plan):
            rep = {"status": out[0], "instruction": ins}
            if out[0] == "SUCCESS":
                self.bets[ins["betId"]]["persistence"] = ins["newPersistenceType"]
            elif out[0] == "FAILURE":
                if out[1] == "BET_TAKEN_OR_LAPSED":
                    self.match(ins["betId"], 1)
                rep["errorCode"] = out[1]
                nf += 1
            reports.append(rep)
        self.answered.append(("UPDATE", len(instructions), nf))
        return resources.UpdateOrders(elapsed_time=0.01, status="SUCCESS" if nf == 0 else "FAILURE", marketId=market_id, customerRef=kw.get("customer_ref"), instructionReports=reports)

    def replace_orders(self, market_id, instructions, **kw):
        self._attempt()
        reports = []
        nf = 0
        for ins, out in zip(instructions, self.plan):
            b = self.bets[ins["betId"]]
            cancel = {"status": out[0], "instruction": {"betId": ins["betId"]}}
            place = {"status": out[0] if out[0] != "SUCCESS" else "SUCCESS", "instruction": {"selectionId": b["sel"], "side": b["side"], "orderType": "LIMIT",
                     "limitOrder": {"size": round(b["size"] - b["matched"] - b["cancelled"] - b["lapsed"], 2), "price": ins["newPrice"], "persistenceType": b["persistence"]}, "customerOrderRef": b["ref"]}}
            if out[0] == "SUCCESS":
                rem = round(b["size"] - b["matched"] - b["cancelled"] - b["lapsed"], 2)
                b["cancelled"] = round(b["cancelled"] + rem, 2)
                b["status"] = "EXECUTION_COMPLETE"
                cancel.update(sizeCancelled=rem, cancelledDate="2022-04-19T18:00:01.000Z")
                bid = self.new_id()
                self.bets[bid] = dict(bet_id=bid, ref=b["ref"], sel=b["sel"], side=b["side"], price=ins["newPrice"], size=rem, matched=0.0, cancelled=0.0, lapsed=0.0,
                                      status="EXECUTABLE", persistence=b["persistence"], replaces=b["bet_id"])
                place.update(betId=bid, placedDate="2022-04-19T18:00:01.000Z", averagePriceMatched=0.0, sizeMatched=0.0, orderStatus="EXECUTABLE")
            elif out[0] == "FAILURE":
                if out[1] == "BET_TAKEN_OR_LAPSED":
                    self.match(ins["betId"], 1)
                cancel["errorCode"] = out[1]
                place["errorCode"] = out[1]
                nf += 1
            rep = {"status": out[0], "cancelInstructionReport": cancel, "placeInstructionReport": place}
            if out[0] == "FAILURE":
                rep["errorCode"] = out[1]
            reports.append(rep)
        self.answered.append(("REPLACE", len(instructions), nf))
        return resources.ReplaceOrders(elapsed_time=0.01, status="SUCCESS" if nf == 0 else "FAILURE", marketId=market_id, customerRef=kw.get("customer_ref"), instructionReports=reports)

    # exchange-side events
    def match(self, bid, part):
        b = self.bets[bid]
        if b["status"] != "EXECUTABLE":
            return
        rem = round(b["size"] - b["matched"] - b["cancelled"] - b["lapsed"], 2)
        m = rem if part >= 1 else round(rem / 2, 2)
        b["matched"] = round(b["matched"] + m, 2)
        if round(b["size"] - b["matched"] - b["cancelled"] - b["lapsed"], 2) == 0:
            b["status"] = "EXECUTION_COMPLETE"

    def lapse(self, bid):
        b = self.bets[bid]
        if b["status"] != "EXECUTABLE":
            return
        b["lapsed"] = round(b["size"] - b["matched"] - b["cancelled"], 2)
        b["status"] = "EXECUTION_COMPLETE"

    def snapshot(self, client):
        orders = []
        for b in self.bets.values():
            rem = round(b["size"] - b["matched"] - b["cancelled"] - b["lapsed"], 2)
            orders.append({"betId": b["bet_id"], "marketId": MARKET_ID, "selectionId": b["sel"], "handicap": 0.0, "priceSize": {"price": b["price"], "size": b["size"]}, "bspLiability": 0.0,
                           "side": b["side"], "status": b["status"], "persistenceType": b["persistence"], "orderType": "LIMIT", "placedDate": "2022-04-19T18:00:00.000Z",
                           "matchedDate": "2022-04-19T18:00:02.000Z" if b["matched"] else None, "averagePriceMatched": b["price"] if b["matched"] else 0.0, "sizeMatched": b["matched"],
                           "sizeRemaining": rem, "sizeLapsed": b["lapsed"], "sizeCancelled": b["cancelled"], "sizeVoided": 0.0, "regulatorCode": "X", "customerOrderRef": b["ref"],
                           "customerStrategyRef": "h"})
        co = resources.CurrentOrders(elapsed_time=0.01, currentOrders=orders, moreAvailable=False, publish_time=1650391300000, streaming_update={}, streaming_unique_id=2, market_id=MARKET_ID)
        co.client = client
        return co


def market_book():
    def runner(s):
        return {"selectionId": s, "handicap": 0.0, "status": "ACTIVE", "lastPriceTraded": 3.0, "totalMatched": 100.0,
                "ex": {"availableToBack": [{"price": 2.9, "size": 50.0}], "availableToLay": [{"price": 3.1, "size": 50.0}], "tradedVolume": []}}
    mdef = MarketDefinition(betDelay=0, bettingType="ODDS", bspMarket=False, bspReconciled=False, complete=True, crossMatching=True, discountAllowed=True, eventId="31389771",
                            eventTypeId="7", inPlay=False, marketBaseRate=5, marketTime="2022-04-19T19:26:00.000Z", numberOfActiveRunners=3, numberOfWinners=1, persistenceEnabled=True,
                            regulators=["MR_INT"], runnersVoidable=False, status="OPEN", timezone="Europe/London", turnInPlayEnabled=True, version=1,
                            runners=[{"status": "ACTIVE", "sortPriority": i + 1, "id": s} for i, s in enumerate(SELS)], openDate="2022-04-19T17:19:00.000Z", countryCode="GB",
                            marketType="WIN", priceLadderDefinition={"type": "CLASSIC"})
    return resources.MarketBook(market_definition=mdef, marketId=MARKET_ID, isMarketDataDelayed=False, status="OPEN", betDelay=0, bspReconciled=False, complete=True, inplay=False,
                                numberOfWinners=1, numberOfRunners=3, numberOfActiveRunners=3, totalMatched=300.0, totalAvailable=300.0, crossMatching=True, runnersVoidable=False,
                                version=1, runners=[runner(s) for s in SELS], publishTime=1650391200000, streaming_unique_id=1, streaming_update={}, streaming_snap=False)


def build(exchange, name="strat", transaction_limit=5000):
    bc = mock.Mock()
    bc.lightweight = False
    bc.username = "demo"
    bc.betting.place_orders.side_effect = exchange.place_orders
    bc.betting.cancel_orders.side_effect = exchange.cancel_orders
    bc.betting.update_orders.side_effect = exchange.update_orders
    bc.betting.replace_orders.side_effect = exchange.replace_orders
    client = clients.BetfairClient(bc, transaction_limit=transaction_limit)  # None = unlimited: still counted (C18)
    fw = Flumine(client=client)
    st = BaseStrategy(market_filter={"marketIds": [MARKET_ID]}, name=name, max_order_exposure=1e6, max_selection_exposure=1e6, max_live_trade_count=10000, max_trade_count=100000)
    fw.add_strategy(st)
    # the stream is "connected" (ExecutionValidation) and there is no back-off sleep in retries
    return fw, client, st


class Inline:
    """handler granularity: the execution 'pool' runs a submitted handler to completion at once (retries re-submit from inside)"""
    _threads = ()

    class _Q:
        @staticmethod
        def qsize():
            return 0

    _work_queue = _Q()

    def submit(self, fn, *args, **kw):
        fn(*args, **kw)

    def shutdown(self, wait=True):
        pass


def drain(execution):
    pass


def main():
    rnd = random.Random(a.seed)
    F = {}
    evaluations = 0
    distinct = set()

    def fail(prop, msg):
        if len(F.setdefault(prop, [])) < 3:
            F[prop].append(msg)

    import flumine.order.orderpackage as op
    op.time.sleep = lambda s: None  # retry back-off
    for it in range(a.n):
        ex = Exchange(rnd)
        fw, client, st = build(ex, transaction_limit=rnd.choice([5000, 5000, None]))
        execution = fw.betfair_execution
        execution._thread_pool.shutdown(wait=False)
        execution._thread_pool = Inline()
        controls_ = [c for c in client.trading_controls if c.NAME == "MAX_TRANSACTION_COUNT"]
        if not controls_:
            for k in ("C18", "C12"):
                fail(k, "no transaction-count control is registered for the client (transaction_limit=%s): its transactions are not counted at all" % client.transaction_limit)
            break
        control = controls_[0]
        market = fw._add_market(MARKET_ID, market_book())
        placed = []

        def monitor(tag):
            blot = market.blotter
            for o in list(blot):
                log = [None] + list(o.status_log)
                for p_, q_ in zip(log, log[1:]):
                    if q_ not in LEGAL.get(p_, set()):
                        fail("C03", "%s: illegal transition %s -> %s (log %s)" % (tag, p_ and p_.value, q_.value, [s.value for s in o.status_log]))
                        break
                stg = o.trade.strategy
                for vn, v in (("strategy", blot._strategy_orders[stg]), ("selection", blot._strategy_selection_orders[(stg, o.selection_id, o.handicap)]), ("client", blot._client_orders[o.client]),
                              ("client_strategy", blot._client_strategy_orders[(o.client, stg)]), ("trade", blot._trades[o.trade])):
                    if sum(1 for x in v if x is o) != 1:
                        fail("C15", "%s: order %s appears %d times in the %s view" % (tag, o.bet_id, sum(1 for x in v if x is o), vn))
                if blot._orders.get(o.id) is not o:
                    fail("C15", "%s: look-up by order id does not return the order in the views (bet %s)" % (tag, o.bet_id))
                if not o.complete and not any(x is o for x in blot._live_orders):
                    fail("C15", "%s: order %s is not complete but left the live list" % (tag, o.bet_id))
            for o in placed:
                if o.status not in (None, OrderStatus.VIOLATION) and market.blotter._orders.get(o.id) is not o:
                    fail("C15", "%s: the order placed by the strategy is no longer the one the blotter returns for its id" % tag)

        def request(kind, orders, outcomes, api_errors=0):
            """issue one package and check the C12 clauses after it was answered (or given up)"""
            nonlocal evaluations
            ex.plan = list(outcomes)
            ex.api_errors = api_errors
            ex.attempts = 0
            ex.cancel_shuffle = rnd.random() < 0.5
            tx0, f0 = control.transaction_count, control.failed_transaction_count
            n_answered0 = len(ex.answered)
            with market.transaction() as t:
                for o in orders:
                    if kind == "PLACE":
                        ok = t.place_order(o)
                    elif kind == "CANCEL":
                        ok = t.cancel_order(o, size_reduction=rnd.choice([None, None, 0.5]))
                    elif kind == "UPDATE":
                        ok = t.update_order(o, "PERSIST" if o.order_type.persistence_type == "LAPSE" else "LAPSE")
                    else:
                        ok = t.replace_order(o, round(o.order_type.price + 0.1, 2))
                    assert ok, "request refused: %s" % o.violation_msg
            drain(execution)
            evaluations += 1
            tag = "%s%s errors=%d" % (kind, tuple(x[0] + ("/" + x[1] if x[1] else "") for x in outcomes), api_errors)
            answered = ex.answered[n_answered0:]
            if ex.attempts > 1 + 3:
                fail("C12", "%s: %d attempts, the retry limit is 3" % (tag, ex.attempts))
            gave_up = not answered
            for i, (o, out) in enumerate(zip(orders, outcomes)):
                allowed = {OrderStatus.EXECUTABLE, OrderStatus.EXECUTION_COMPLETE}
                if kind == "PLACE" and not gave_up and out[0] == "TIMEOUT":
                    allowed = allowed | {OrderStatus.PENDING}
                if o.status not in allowed:
                    fail("C12", "%s: order #%d left in state '%s'" % (tag, i, o.status.value if o.status else None))
                if o.trade.status == TradeStatus.PENDING:
                    fail("C12", "%s: trade of order #%d left PENDING" % (tag, i))
                if not gave_up and kind == "PLACE" and out[0] == "SUCCESS":
                    b = ex.bets.get(o.bet_id)
                    if b is None or b["ref"] != o.customer_order_ref:
                        fail("C12", "%s: the placement report was applied to the wrong order" % tag)
                if not gave_up and kind == "REPLACE" and out[0] == "SUCCESS":
                    reps = [x for x in o.trade.orders if x is not o and ex.bets.get(x.bet_id, {}).get("replaces") == o.bet_id]
                    if o.status != OrderStatus.EXECUTION_COMPLETE or len(reps) != 1 or reps[0].status != OrderStatus.EXECUTABLE:
                        fail("C12", "%s: replaced order #%d is '%s' with %d live replacement(s)" % (tag, i, o.status.value, len(reps)))
                    elif market.blotter.get_order_bet_id(reps[0].bet_id) is not reps[0]:
                        fail("C15", "%s: the replacement order is not found under its bet id %s" % (tag, reps[0].bet_id))
            want_tx = sum(n for k, n, nf in answered if k in ("PLACE", "REPLACE"))
            # a failed PLACEMENT is a bet submitted and is charged once (as such); failed cancel / update / replace
            # instructions are the "failed instructions reported" (reading I-10 of DESIGN C12, the one the code implements)
            want_f = sum(nf for k, n, nf in answered if k != "PLACE")
            if control.transaction_count - tx0 != want_tx or control.failed_transaction_count - f0 != want_f:
                fail("C12", "%s: charged %d/%d failed, the exchange answered %d bets submitted / %d failed instructions" % (tag, control.transaction_count - tx0, control.failed_transaction_count - f0, want_tx, want_f))
            monitor(tag)

        def out_choice(kind):
            r = rnd.random()
            if r < 0.55:
                return ("SUCCESS", None)
            if r < 0.85:
                code = rnd.choice(FAIL_CODES if kind != "PLACE" else [c for c in FAIL_CODES if c != "BET_TAKEN_OR_LAPSED"])
                return ("FAILURE", code)
            return ("TIMEOUT", None)

        def reconcile(tag):
            """no request outstanding: process the latest snapshot (twice: duplicated snapshots) and compare"""
            snap = ex.snapshot(client)
            for _ in range(2):
                fw._process_current_orders(CurrentOrdersEvent([snap]))
            for b in ex.bets.values():
                o = market.blotter.get_order_bet_id(b["bet_id"]) or next((x for x in market.blotter if x.bet_id == b["bet_id"]), None)
                if o is None:
                    fail("C11", "%s: exchange bet %s has no local order after the snapshot" % (tag, b["bet_id"]))
                    continue
                rem = round(b["size"] - b["matched"] - b["cancelled"] - b["lapsed"], 2)
                if abs(o.size_matched - b["matched"]) > 1e-9 or abs(o.size_remaining - rem) > 1e-9:
                    fail("C11", "%s: bet %s sizes local (%s matched, %s remaining) != exchange (%s, %s)" % (tag, b["bet_id"], o.size_matched, o.size_remaining, b["matched"], rem))
                if o.complete != (b["status"] == "EXECUTION_COMPLETE"):
                    fail("C11", "%s: bet %s complete locally=%s, exchange status %s (local status %s)" % (tag, b["bet_id"], o.complete, b["status"], o.status.value if o.status else None))
                if o.complete and any(x is o for x in market.blotter._live_orders):
                    fail("C11", "%s: complete order %s is still in the live list" % (tag, b["bet_id"]))
                if all(x.complete for x in o.trade.orders) and o.trade.status != TradeStatus.COMPLETE:
                    fail("C11", "%s: all orders of the trade are complete but the trade is %s" % (tag, o.trade.status.value))
            monitor(tag + " after snapshot")

        try:
            n0 = rnd.randint(1, 3)
            orders = []
            for i in range(n0):
                tr = Trade(MARKET_ID, SELS[i % 3], 0, st)
                orders.append(tr.create_order(rnd.choice(["BACK", "LAY"]), LimitOrder(3.5, 2.0, "LAPSE")))
            placed += orders
            outs = [out_choice("PLACE") for _ in orders]
            request("PLACE", orders, outs, api_errors=rnd.choice([0, 0, 1, 2, 3]))
            for step in range(rnd.randint(1, 4)):
                # an order whose placement timed out stays pending until the stream reports it: the double did nothing, so leave it
                live = [o for o in market.blotter if o.status == OrderStatus.EXECUTABLE and o.bet_id in ex.bets and ex.bets[o.bet_id]["status"] == "EXECUTABLE" and o.size_remaining > 0]
                ev = rnd.random()
                if ev < 0.25 and live:
                    ex.match(rnd.choice(live).bet_id, rnd.choice([0.5, 1]))
                    reconcile("step %d match" % step)
                    continue
                if ev < 0.35 and live:
                    ex.lapse(rnd.choice(live).bet_id)
                    reconcile("step %d lapse" % step)
                    continue
                if not live:
                    break
                kind = rnd.choice(["CANCEL", "UPDATE", "REPLACE"])
                k = min(len(live), rnd.randint(1, 3))
                sel = rnd.sample(live, k)
                request(kind, sel, [out_choice(kind) for _ in sel], api_errors=rnd.choice([0, 0, 0, 1, 4]))
                reconcile("step %d after %s" % (step, kind))
            reconcile("end")
            distinct.add((n0, len(ex.bets), len(ex.answered)))
            # restart: a fresh framework, same exchange state
            fw2, client2, st2 = build(ex)
            fw2.betfair_execution._thread_pool.shutdown(wait=False)
            snap = ex.snapshot(client2)
            # one foreign bet of an unknown strategy
            foreign = dict(snap._data["currentOrders"][0]) if snap._data["currentOrders"] else None
            for _ in range(2):
                fw2._process_current_orders(CurrentOrdersEvent([snap]))
            m2 = fw2.markets.markets.get(MARKET_ID)
            known = [b for b in ex.bets.values()]
            if known:
                if m2 is None:
                    fail("C11", "restart: exchange orders were not adopted (no market)")
                else:
                    ids = {}
                    for o in m2.blotter:
                        ids.setdefault(o.id, []).append(o)
                    refs = {}
                    for b in known:
                        refs.setdefault(b["ref"][14:], []).append(b)
                    for oid, bs in refs.items():
                        if len(ids.get(oid, [])) != 1:
                            fail("C11", "restart: order id %s adopted %d times" % (oid, len(ids.get(oid, []))))
                        elif ids[oid][0].trade.strategy is not st2:
                            fail("C11", "restart: adopted into the wrong strategy")
                    for o in m2.blotter:
                        for vn, v in (("strategy", m2.blotter._strategy_orders[o.trade.strategy]), ("live", m2.blotter._live_orders if not o.complete else [o])):
                            if sum(1 for x in v if x is o) != 1:
                                fail("C15", "restart: adopted order appears %d times in the %s view" % (sum(1 for x in v if x is o), vn))
            drain(execution)
            execution.shutdown()
            fw2.betfair_execution.shutdown()
        except AssertionError as e:
            # a request the script expected to be accepted was refused: scenario skipped, not a verdict
            F.setdefault("SKIPPED", []).append(str(e)[:200])
        except Exception:
            import traceback
            F.setdefault("CRASH", []).append(traceback.format_exc()[-1200:])
            break
        if sum(len(v) for k, v in F.items() if k != "SKIPPED") > 8:
            break
    skipped = len(F.pop("SKIPPED", []))
    print(json.dumps(dict(evaluations=evaluations, distinct=len(distinct), skipped_scenarios=skipped, failures={k: v[:3] for k, v in F.items()})))


main()
