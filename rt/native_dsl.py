"""Native (CPython) reading of the sidecar DSL: the same clause text that pyvc turns into SMT is evaluated on real
objects.  Quantifiers over the integers are searched on a bounded window (stated), so a native 'True' for an
exists_int / 'False' for a forall_int is conclusive, the other direction is only bounded evidence."""
import ast
import glob
import os

INT_WINDOW = range(-2000, 100001)


def implies(a, b):
    return (not a) or bool(b)


def iff(a, b):
    return bool(a) == bool(b)


def forall(f, lo=None, hi=None):
    if lo is None:
        return all(f(k) for k in INT_WINDOW)
    return all(f(j) for j in range(int(lo), int(hi)))


def exists(f, lo=None, hi=None):
    if lo is None:
        return any(f(k) for k in INT_WINDOW)
    return any(f(j) for j in range(int(lo), int(hi)))


def forall_int(f):
    n = f.__code__.co_argcount
    if n == 1:
        return all(f(k) for k in range(-200, 2001))
    rng = range(-50, 400)
    return all(f(a, b) for a in rng for b in rng)


def exists_int(f):
    n = f.__code__.co_argcount
    if n == 1:
        return any(_safe(f, k) for k in INT_WINDOW)
    rng = range(-50, 400)
    return any(f(a, b) for a in rng for b in rng)


def _safe(f, k):
    try:
        return f(k)
    except Exception:
        return False


def sum_(f, lo, hi):
    return sum(f(j) for j in range(int(lo), int(hi)))


def is_int(x):
    return abs(x - round(x)) < 1e-9


EPS = 1e-9


def _c(op, a, b):
    """comparison with the tolerance that assumption A1 needs natively (floats stand for exact reals)"""
    num = lambda x: isinstance(x, (int, float)) and not isinstance(x, bool)
    if num(a) and num(b):
        if op == "==":
            return abs(a - b) <= EPS * max(1.0, abs(a), abs(b))
        if op == "!=":
            return not abs(a - b) <= EPS * max(1.0, abs(a), abs(b))
        if op == "<=":
            return a <= b + EPS * max(1.0, abs(a), abs(b))
        if op == ">=":
            return a + EPS * max(1.0, abs(a), abs(b)) >= b
        if op == "<":
            return a < b - EPS * max(1.0, abs(a), abs(b))
        if op == ">":
            return a > b + EPS * max(1.0, abs(a), abs(b))
    if isinstance(a, (tuple, list)) and isinstance(b, (tuple, list)) and op in ("==", "!=") and len(a) == len(b):
        eq = all(_c("==", x, y) for x, y in zip(a, b))
        return eq if op == "==" else not eq
    return {"==": lambda: a == b, "!=": lambda: a != b, "<=": lambda: a <= b, ">=": lambda: a >= b, "<": lambda: a < b, ">": lambda: a > b}[op]()


class TolerantCompare(ast.NodeTransformer):
    OPS = {ast.Eq: "==", ast.NotEq: "!=", ast.LtE: "<=", ast.GtE: ">=", ast.Lt: "<", ast.Gt: ">"}

    def visit_Compare(self, node):
        self.generic_visit(node)
        if not all(type(o) in self.OPS for o in node.ops):
            return node
        parts = []
        left = node.left
        for o, r in zip(node.ops, node.comparators):
            parts.append(ast.Call(func=ast.Name(id="__c", ctx=ast.Load()), args=[ast.Constant(self.OPS[type(o)]), left, r], keywords=[]))
            left = r
        new = parts[0] if len(parts) == 1 else ast.BoolOp(op=ast.And(), values=parts)
        return ast.copy_location(new, node)


def tolerant(tree):
    return ast.fix_missing_locations(TolerantCompare().visit(tree))


class _Sort:
    def __call__(self, *a, **k):
        return self

    def __getitem__(self, k):
        return self


def load(contracts_dir):
    ns = {}
    structs = {}
    records = {}

    def noop(*a, **k):
        return None

    def deco(*a, **k):
        return lambda f: f

    def struct(cls, absent_keyerror=True, **fields):
        structs[cls] = list(fields)

    def record(cls, *sorts):
        records[cls] = len(sorts)

    S = _Sort()
    base = dict(
        implies=implies, iff=iff, forall=forall, exists=exists, forall_int=forall_int, exists_int=exists_int, sum_=sum_, is_int=is_int,
        schema=noop, struct=struct, record=record, module_var=noop, const=noop, inline=noop, lock=noop, abstract_bool=noop, class_tag=noop,
        abstract_property=noop, dispatch=noop, clock=noop, contract=deco, virtual=deco, external=deco, lemma=deco,
        grid=noop, ground_numbers=noop, ghost_list=noop, charset=noop, bands=noop,
        REAL=S, INT=S, BOOL=S, ATOM=S, MONEY=S, CHARS=S, NONE=S, Ref=S, Opt=S, Tup=S, ListOf=S, MapOf=S, MapOfDefault=S,
    )
    for k in ("requires", "ensures", "raises", "modifies", "modifies_all", "modifies_list", "modifies_map", "invariant", "decreases", "local", "trusted", "note", "cover"):
        base[k] = noop
    ns.update(base)
    ns["__c"] = _c
    # names of repo enums used in clauses
    try:
        from flumine.order.order import OrderStatus
        from flumine.order.ordertype import OrderTypes
        from flumine.order.orderpackage import OrderPackageType
        from flumine.clients.clients import ExchangeType
        from flumine.order.trade import TradeStatus

        ns.update(OrderStatus=OrderStatus, OrderTypes=OrderTypes, OrderPackageType=OrderPackageType, ExchangeType=ExchangeType, TradeStatus=TradeStatus)
    except Exception:
        pass
    for f in sorted(glob.glob(os.path.join(contracts_dir, "*.py"))):
        if os.path.basename(f).startswith("extra_"):
            continue
        try:
            src = open(f).read()
            exec(compile(tolerant(ast.parse(src)), f, "exec"), ns)
        except Exception as e:  # a sidecar that cannot be read natively only costs replays, never verdicts
            ns.setdefault("__load_errors__", []).append("%s: %r" % (f, e))
    ns["__structs__"] = structs
    ns["__records__"] = records
    return ns
