"""Bounded native stand-in (never counted as proved) for the re-open clause of C20 in RAW-DATA mode (data recorders): "the market is
marked closed and, if data for it arrives again, is re-opened with its cleared flags reset".
Real Flumine (live class, no network: the client is a mock), real Market / Markets, real BaseFlumine._process_raw_data and
_process_close_market fed with raw stream updates (dicts): random sequences over a few markets of updates that carry a market
definition (OPEN / SUSPENDED / CLOSED) or only prices; after a CLOSED update has been processed the cleared flags are set as the
closure poller would; oracle after every update: the market of an update that is not a closing one is registered and OPEN with empty
cleared lists; a market is closed exactly when its latest update was a closing one.
usage: raw_reopen.py --repo R --n N --seed S   -> last line JSON {evaluations, distinct, failures: {"C20": [...]}}"""
import argparse, json, logging, os, random, sys
from unittest import mock

ap = argparse.ArgumentParser(); ap.add_argument("--repo", default="/repo"); ap.add_argument("--n", type=int, default=50); ap.add_argument("--seed", type=int, default=0)
a = ap.parse_args()
sys.path.insert(0, a.repo); os.chdir(a.repo)
import flumine
assert os.path.abspath(flumine.__file__).startswith(os.path.abspath(a.repo)), flumine.__file__
from flumine import Flumine, BaseStrategy
from flumine.events import events

logging.disable(logging.CRITICAL)


class Raw(BaseStrategy):
    def process_raw_data(self, clk, publish_time, datum):
        self.context.setdefault("seen", []).append(datum.get("id"))


def main():
    rnd = random.Random(a.seed)
    failures, evaluations, distinct = [], 0, set()
    for it in range(a.n):
        client = mock.Mock(paper_trade=False, EXCHANGE=None, username="u")
        client.EXCHANGE = flumine.clients.ExchangeType.BETFAIR
        fw = Flumine(client=client)
        st = Raw(market_filter={}, market_data_filter={}, stream_class=mock.Mock(), name="raw")
        st.streams = [mock.Mock(stream_id=7)]
        fw.strategies._strategies.append(st)
        mids = ["1.%d" % (500 + k) for k in range(rnd.randint(1, 3))]
        last_closing = {}
        script = []
        for step in range(rnd.randint(4, 14)):
            mid = rnd.choice(mids)
            kind = rnd.choice(["def_open", "prices", "prices", "closed", "def_suspended"])
            datum = {"id": mid, "rc": [{"id": 1, "ltp": 2.0}]}
            if kind.startswith("def_"):
                datum["marketDefinition"] = {"status": "OPEN" if kind == "def_open" else "SUSPENDED", "eventId": "9", "marketTime": "2022-04-15T12:00:00.000Z"}
            elif kind == "closed":
                datum["marketDefinition"] = {"status": "CLOSED", "eventId": "9", "marketTime": "2022-04-15T12:00:00.000Z"}
            script.append((mid, kind))
            fw._process_raw_data(events.RawDataEvent((7, "clk", 1650000000000 + step, [datum])))
            evaluations += 1
            # the closing update is queued: the main loop hands it to _process_close_market
            while not fw.handler_queue.empty():
                ev = fw.handler_queue.get()
                if ev.EVENT_TYPE == events.EventType.CLOSE_MARKET:
                    fw._process_close_market(ev)
                    m = fw.markets.markets.get(ev.event["id"])
                    if m is not None:
                        m.orders_cleared = ["raw"]  # as flumine.worker.poll_market_closure does once the closure is reported
                        m.market_cleared = ["raw"]
            market = fw.markets.markets.get(mid)
            if market is None:
                failures.append("update for %s: the market is not registered (script %s)" % (mid, script)); break
            if kind == "closed":
                if not market.closed:
                    failures.append("closing update for %s processed but the market is not marked closed (script %s)" % (mid, script)); break
            else:
                if market.closed or market.orders_cleared or market.market_cleared:
                    failures.append("data for %s arrived again after its closure (%s update) but the market is not re-opened with its cleared flags reset: closed=%s orders_cleared=%s market_cleared=%s (script %s)"
                                    % (mid, "price-only" if kind == "prices" else "definition", market.closed, market.orders_cleared, market.market_cleared, script)); break
            last_closing[mid] = kind == "closed"
        distinct.add(tuple(script))
        if failures:
            break
    print(json.dumps(dict(evaluations=evaluations, distinct=len(distinct), failures={"C20": failures[:3]} if failures else {})))


main()
