"""Native replay of a counter-model on the REAL code (runs under /venv/bin/python, the interpreter that runs flumine).

stdin: the replay record written by pyvc.driver (function, violated clause, pre_state observables, atoms).
It rebuilds real objects from the pre-state values, calls the real function on the tree given by --repo and
re-evaluates the violated clause natively with the native DSL of rt/native_dsl.py.
stdout (last line): {"confirmed": bool, "observed": ..., "note": ...}
"""
import argparse
import ast
import copy
import importlib
import json
import os
import sys
import traceback
from fractions import Fraction

HERE = os.path.dirname(os.path.abspath(__file__))
VERIF = os.path.dirname(HERE)


def out(d):
    print(json.dumps(d, default=str))
    sys.exit(0)


def srepr(v, n=300):
    """repr that survives half-built objects (only the fields the model names are set)"""
    try:
        return repr(v)[:n]
    except Exception:
        try:
            return "<%s %s>" % (type(v).__name__, {k: srepr(x, 60) for k, x in list(vars(v).items())[:12]})
        except Exception:
            return "<%s>" % type(v).__name__


def num(v):
    v = str(v).replace("?", "")
    if v in ("True", "False"):
        return v == "True"
    try:
        f = Fraction(v)
    except Exception:
        return None
    return int(f) if f.denominator == 1 and "/" not in v and "." not in v else float(f)


class Stub:
    """stand-in for objects of classes that are external / irrelevant to the replayed function"""

    def __init__(self, cls):
        self.__dict__["_cls"] = cls

    def __repr__(self):
        return "<Stub %s %s>" % (self._cls, {k: v for k, v in self.__dict__.items() if k != "_cls"})


class Builder:
    def __init__(self, rec, ns):
        self.pre = rec.get("pre_state", {})
        self.atoms = rec.get("atoms", {})
        self.objs = {}
        self.ns = ns
        self.structs = ns["__structs__"]
        self.records = ns["__records__"]

    def atom(self, code):
        name = self.atoms.get(str(code))
        if name is None:
            return "atom%s" % code
        if name.startswith("str:"):
            return name[4:]
        if name.startswith("cls:"):
            return name
        if "." in name:
            cn, mem = name.split(".", 1)
            for mod in ("flumine.order.order", "flumine.order.ordertype", "flumine.order.orderpackage", "flumine.clients.clients", "flumine.order.trade", "flumine.events.events"):
                try:
                    m = importlib.import_module(mod)
                    if hasattr(m, cn):
                        return getattr(getattr(m, cn), mem)
                except Exception:
                    pass
        return name

    def scalar(self, sort, value):
        if sort == "Atom":
            return self.atom(value)
        if sort == "Bool":
            return str(value) == "True"
        return num(value)

    def real_class(self, cls, path):
        import flumine.order.order as oo
        import flumine.order.ordertype as ot
        import flumine.simulation.simulatedorder as so
        import flumine.order.trade as tr

        if cls in ("BaseOrder", "BetfairOrder"):
            return oo.BetfairOrder
        if cls == "BetdaqOrder":
            return oo.BetdaqOrder
        if cls == "SimulatedOrder":
            return so.SimulatedOrder
        if cls == "BaseOrderType":
            tag = self.pre.get(path + ".ORDER_TYPE")
            t = self.atom(tag["value"]) if tag else None
            return {ot.OrderTypes.LIMIT: ot.LimitOrder, ot.OrderTypes.LIMIT_ON_CLOSE: ot.LimitOnCloseOrder, ot.OrderTypes.MARKET_ON_CLOSE: ot.MarketOnCloseOrder}.get(t, ot.LimitOrder)
        if cls == "Trade":
            return tr.Trade
        for mod in ("flumine.strategy.runnercontext", "flumine.controls.clientcontrols", "flumine.controls.tradingcontrols", "flumine.markets.blotter", "flumine.markets.market",
                    "flumine.execution.transaction", "flumine.order.orderpackage", "flumine.markets.middleware", "flumine.simulation.utils", "flumine.order.responses"):
            try:
                m = importlib.import_module(mod)
                if hasattr(m, cls):
                    return getattr(m, cls)
            except Exception:
                pass
        return None

    def instantiate(self, rc):
        """a well-formed instance of a framework class (built by its real constructor where that is cheap), so that fields
        the model does not mention hold their constructor defaults instead of being absent; the model's fields are then
        written over it.  Falls back to a bare object."""
        try:
            import flumine.order.order as oo
            import flumine.order.ordertype as ot
            import flumine.order.trade as tr

            if issubclass(rc, oo.BaseOrder):
                from unittest import mock

                strategy = mock.Mock()
                strategy.name_hash = "abcdefghijklm"
                trade = tr.Trade("1.1", 1, 0.0, strategy)
                cls_ot = ot.BetdaqLimitOrder if rc is oo.BetdaqOrder and hasattr(ot, "BetdaqLimitOrder") else ot.LimitOrder
                return rc(trade, "BACK", cls_ot(2.0, 2.0))
        except Exception:
            pass
        return object.__new__(rc)

    def build(self, path):
        """value at an access path of the pre-state"""
        pre = self.pre
        if path + "?none" in pre and pre[path + "?none"]["value"] == "True":
            return None
        if path + "@ref" in pre:
            info = pre[path + "@ref"]
            cls = info["sort"][4:]
            key = (cls if cls not in ("BaseOrder",) else "BetfairOrder", info["value"])
            if key in self.objs:
                return self.objs[key]
            if cls in self.records:
                obj = [None] * self.records[cls]
                self.objs[key] = obj
                for i in range(len(obj)):
                    obj[i] = self.build("%s.%d" % (path, i))
                return obj
            if cls in self.structs or cls == "PriceSize":
                obj = {}
                self.objs[key] = obj
                for k in pre:
                    if k.startswith(path + ".") and "." not in k[len(path) + 1 :].replace("?none", "").replace("@ref", "").replace("@len", ""):
                        f = k[len(path) + 1 :].replace("?none", "").replace("@ref", "").replace("@len", "")
                        v = self.build(path + "." + f)
                        if v is not None or cls == "PriceSize":
                            obj[f] = v
                return obj
            rc = self.real_class(cls, path)
            obj = self.instantiate(rc) if rc is not None else Stub(cls)
            self.objs[key] = obj
            fields = sorted({k[len(path) + 1 :].split(".")[0].split("[")[0].replace("?none", "").replace("@ref", "").replace("@len", "") for k in pre if k.startswith(path + ".")})
            overrides = {}
            for f in fields:
                v = self.build(path + "." + f)
                try:
                    d = getattr(type(obj), f, None)
                    if isinstance(d, property) and d.fset is None:
                        overrides[f] = v
                    elif f.isupper() and rc is not None and hasattr(rc, f):
                        pass  # class attribute of the concrete class (ORDER_TYPE, EXCHANGE): chosen through real_class
                    else:
                        object.__setattr__(obj, f, v) if not isinstance(obj, Stub) else obj.__dict__.__setitem__(f, v)
                except Exception:
                    overrides[f] = v
            if overrides and not isinstance(obj, Stub):
                # abstract properties: a dynamic subclass pins them to the model's values
                obj.__class__ = type(type(obj).__name__ + "_replay", (type(obj),), {k: property(lambda s, _v=v: _v) for k, v in overrides.items()})
            return obj
        if path + "@len" in pre:
            n = num(pre[path + "@len"]["value"]) or 0
            n = max(0, min(int(n), 3))
            return [self.build("%s[%d]" % (path, i)) for i in range(n)]
        if path in pre:
            return self.scalar(pre[path]["sort"], pre[path]["value"])
        # tuple?
        items = []
        i = 0
        while any(k.startswith("%s[%d]" % (path, i)) for k in pre):
            items.append(self.build("%s[%d]" % (path, i)))
            i += 1
        if items:
            return tuple(items)
        return None


def load_sidecars():
    sys.path.insert(0, HERE)
    import native_dsl

    return native_dsl.load(os.path.join(VERIF, "contracts"))


class OldRewriter(ast.NodeTransformer):
    def __init__(self):
        self.olds = []

    def visit_Call(self, node):
        if isinstance(node.func, ast.Name) and node.func.id == "old":
            self.olds.append(node.args[0])
            return ast.copy_location(ast.Name(id="__old_%d" % (len(self.olds) - 1), ctx=ast.Load()), node)
        return self.generic_visit(node)


def main():
    ap = argparse.ArgumentParser()
    ap.add_argument("--repo", default="/repo")
    a = ap.parse_args()
    rec = json.load(sys.stdin)
    sys.path.insert(0, a.repo)
    os.chdir(a.repo)
    try:
        import flumine

        if not os.path.abspath(flumine.__file__).startswith(os.path.abspath(a.repo)):
            out(dict(confirmed=False, note="flumine imported from %s, not from %s" % (flumine.__file__, a.repo)))
        ns = load_sidecars()
    except Exception as e:
        out(dict(confirmed=False, note="setup failed: %r" % e, tb=traceback.format_exc()[-800:]))
    # the logging configuration is an input (A5): when the model answered isEnabledFor(..) False, logging is switched off
    le = (rec.get("env") or {}).get("logging_enabled") or []
    if le and not any(le):
        import logging

        logging.disable(logging.CRITICAL)
    fn = rec.get("function") or ""
    clause = rec.get("violated_clause")
    kind = rec.get("kind")
    b = Builder(rec, ns)
    params = sorted({k.split(".")[0].split("[")[0].split("@")[0].split("?")[0] for k in rec.get("pre_state", {})})
    env = dict(ns)
    args = {}
    for p in params:
        args[p] = b.build(p)
    env.update(args)
    if fn.startswith("lemma::"):
        if not clause:
            out(dict(confirmed=False, note="no clause"))
        try:
            import native_dsl
            val = eval(compile(native_dsl.tolerant(ast.parse(clause, mode="eval")), "<clause>", "eval"), env)
            out(dict(confirmed=not bool(val), observed=dict(clause_value=bool(val), args={k: srepr(v) for k, v in args.items()}), note="spec-level lemma evaluated natively on the model's arguments"))
        except Exception as e:
            out(dict(confirmed=False, note="lemma evaluation failed: %r" % e))
    try:
        path, name = fn.split("::")
        mod = importlib.import_module(path[:-3].replace("/", "."))
        if "." in name:
            cn, mn = name.split(".")
            cls = getattr(mod, cn)
            member = cls.__dict__.get(mn)
            if isinstance(member, property):
                call = lambda: member.fget(args["self"])
            elif isinstance(member, staticmethod):
                call = lambda: member.__func__(**{k: v for k, v in args.items() if k != "self"})
            else:
                call = lambda: getattr(cls, mn)(**args)
        else:
            f = getattr(mod, name)
            call = lambda: f(**args)
    except Exception as e:
        out(dict(confirmed=False, note="cannot resolve %s: %r" % (fn, e)))
    # parameters the function never reads have no observable: take the model's argument value (or a placeholder)
    try:
        import inspect

        target = member.fget if ("." in name and isinstance(member, property)) else (member.__func__ if ("." in name and isinstance(member, (staticmethod, classmethod))) else (member if "." in name else f))
        for pn, pv in inspect.signature(target).parameters.items():
            if pn in args or pv.default is not inspect.Parameter.empty or pv.kind in (pv.VAR_POSITIONAL, pv.VAR_KEYWORD):
                continue
            mv = (rec.get("model_args") or {}).get(pn + "_0")
            if mv is None:
                args[pn] = "x"
            elif str(mv) in b.atoms:
                args[pn] = b.atom(mv)
            else:
                args[pn] = num(mv) if num(mv) is not None else "x"
            env[pn] = args[pn]
    except Exception:
        pass
    # pre-evaluate old(...) sub-expressions
    import native_dsl
    rew = OldRewriter()
    tree = native_dsl.tolerant(rew.visit(ast.parse(clause, mode="eval"))) if clause else None
    try:
        for i, o in enumerate(rew.olds):
            env["__old_%d" % i] = copy.deepcopy(eval(compile(ast.Expression(o), "<old>", "eval"), env))
    except Exception as e:
        out(dict(confirmed=False, note="pre-state evaluation of old() failed: %r" % e, args={k: srepr(v, 200) for k, v in args.items()}))
    exc = None
    result = None
    try:
        result = call()
    except Exception as e:  # noqa
        exc = e
    observed = dict(result=srepr(result), exception=srepr(exc) if exc else None, args={k: srepr(v) for k, v in args.items()})
    if kind == "safety" or kind == "raises":
        if exc is not None and "no-unexpected-exception" in rec.get("obligation", ""):
            want = rec["obligation"].split("no-unexpected-exception:")[1].split("@")[0]
            out(dict(confirmed=type(exc).__name__ == want, observed=observed, note="the real call raised %s" % type(exc).__name__))
        if kind == "raises" and exc is not None and clause:
            # the exception was raised although its 'when' condition (evaluated on the pre-state) is false
            try:
                val = eval(compile(ast.fix_missing_locations(tree), "<clause>", "eval"), env)
                out(dict(confirmed=not bool(val), observed=observed, note="raised %s with when-condition %s" % (type(exc).__name__, bool(val))))
            except Exception as e:
                out(dict(confirmed=False, observed=observed, note="when-condition evaluation failed: %r" % e))
        out(dict(confirmed=False, observed=observed, note="safety obligation: nothing to observe natively"))
    if exc is not None:
        out(dict(confirmed=False, observed=observed, note="the real call raised; the violated clause is a normal-exit clause"))
    if not clause:
        out(dict(confirmed=False, observed=observed, note="no clause text"))
    env["result"] = result
    try:
        val = eval(compile(ast.fix_missing_locations(tree), "<clause>", "eval"), env)
        out(dict(confirmed=not bool(val), observed=observed, note="clause evaluated natively to %s" % bool(val)))
    except Exception as e:
        out(dict(confirmed=False, observed=observed, note="clause evaluation failed: %r" % e, tb=traceback.format_exc()[-600:]))


if __name__ == "__main__":
    main()
