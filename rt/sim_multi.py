"""Bounded scenario stand-in (never counted as proved) for C14 and C20: event-grouped simulation and market closure.

Real FlumineSimulation over several synthetic market files of ONE event (event_processing=True), with unequal lengths and
cadences, identical publish times across markets, repeated CLOSED updates with differing results, a market that re-opens after
a close; a recording strategy checks

  C14  every update of every file is delivered exactly once; per market in file order; across the markets of the event in
       non-decreasing publish-time order; the framework clock equals the publish time of the update being processed; two
       runs of the same input give the same delivery sequence and ledger; the real datetime class is restored afterwards
  C20  the closed-market callback fires exactly once per closing update, with the final book; at that moment every order of
       the market carries the runner status of THAT book and the market's type; the market is marked closed and, when data
       arrives again, re-opened with its cleared lists reset; cleared-orders / cleared-market summaries are emitted once per close

(no starting-price orders, no runner removal: outside the recorded known findings; every market file has at least one update:
the recorded C14 finding is an event-group file without any update)
usage: sim_multi.py --repo R --n N --seed S
"""
import argparse, datetime as _dt, json, logging, os, random, shutil, sys, tempfile

ap = argparse.ArgumentParser(); ap.add_argument("--repo", default="/repo"); ap.add_argument("--n", type=int, default=8); ap.add_argument("--seed", type=int, default=0)
a = ap.parse_args()
sys.path.insert(0, a.repo); os.chdir(a.repo)
import flumine
assert os.path.abspath(flumine.__file__).startswith(os.path.abspath(a.repo)), flumine.__file__
from flumine import FlumineSimulation, clients, BaseStrategy
from flumine.order.trade import Trade
from flumine.order.ordertype import LimitOrder
from flumine.controls.loggingcontrols import LoggingControl
from flumine.events.events import EventType

logging.disable(logging.CRITICAL)
REAL_DATETIME = _dt.datetime
T0 = 1650000000000
SELS = [11, 22]
LINES = {}  # market id -> handicap lines


def md(status, version, winners=None, event="31389771", lines=(0,)):
    """lines: the handicap lines of the market ((0,) = ordinary market; several = one selection id on several lines that settle differently)"""
    runners = [{"status": "ACTIVE", "sortPriority": i + 1, "id": s, **({"hc": h} if lines != (0,) else {})} for i, (s, h) in enumerate((s, h) for s in SELS for h in lines)]
    if winners is not None:
        for r in runners:
            r["status"] = "WINNER" if (r["id"], r.get("hc", 0)) in winners else "LOSER"
    return {"bspMarket": False, "turnInPlayEnabled": True, "persistenceEnabled": True, "marketBaseRate": 5, "eventId": event, "eventTypeId": "7",
            "numberOfWinners": 1, "bettingType": "ODDS", "marketType": "WIN", "marketTime": "2022-04-15T12:00:00.000Z", "suspendTime": "2022-04-15T12:00:00.000Z",
            "bspReconciled": False, "complete": True, "inPlay": False, "crossMatching": True, "runnersVoidable": False,
            "numberOfActiveRunners": 0 if winners is not None else len(SELS), "betDelay": 0, "status": status, "runners": runners, "regulators": ["MR_INT"],
            "venue": "Test", "countryCode": "GB", "discountAllowed": True, "timezone": "Europe/London", "openDate": "2022-04-15T11:00:00.000Z",
            "version": version, "priceLadderDefinition": {"type": "CLASSIC"}}


def line_price(lines_, h):
    """best back price shown on a handicap line: every line of a selection has its own book"""
    return 2.0 + 1.0 * list(lines_).index(h)


def build_market(rnd, mid, start):
    """-> (lines, expected list of (pt, kind, winners)) ; kinds: book | closed"""
    lines, exp = [], []
    pt = start
    version = 100
    n = rnd.randint(3, 12)
    cadence = rnd.choice([100, 500, 1000, 1000, 3000])
    lines_ = rnd.choice([(0,), (0,), (-0.5, 1.5)])
    LINES[mid] = lines_
    keys = [(s, h) for s in SELS for h in lines_]
    for t in range(n):
        pt += cadence if rnd.random() < 0.8 else rnd.choice([0, 1000])  # 0: identical publish times do occur
        mc = {"id": mid, "rc": [{"id": s, **({"hc": h} if lines_ != (0,) else {}), "atb": [[line_price(lines_, h), 20]], "atl": [[round(line_price(lines_, h) + 0.2, 2), 20]], "trd": [[2.0, 10.0 + t]]} for s, h in keys]}
        if t == 0:
            mc["marketDefinition"] = md("OPEN", version, lines=lines_)
        lines.append(json.dumps({"op": "mcm", "clk": "A", "pt": pt, "mc": [mc]}))
        exp.append((pt, "book", None))
    closes = rnd.choice([1, 1, 2, 3])
    for c in range(closes):
        pt += rnd.choice([500, 1000])
        version += 1
        winners = [rnd.choice(keys)] if lines_ == (0,) else [k for k in keys if rnd.random() < 0.5] or [keys[0]]  # handicap lines of one selection settle differently
        lines.append(json.dumps({"op": "mcm", "clk": "A", "pt": pt, "mc": [{"id": mid, "marketDefinition": md("CLOSED", version, winners, lines=lines_)}]}))
        exp.append((pt, "closed", winners))
        if c + 1 < closes and rnd.random() < 0.5:
            # data arrives again: the market re-opens
            pt += 500
            version += 1
            mc = {"id": mid, "marketDefinition": md("OPEN", version, lines=lines_), "rc": [{"id": s, **({"hc": h} if lines_ != (0,) else {}), "atb": [[2.0, 20]], "atl": [[2.2, 20]]} for s, h in keys]}
            lines.append(json.dumps({"op": "mcm", "clk": "A", "pt": pt, "mc": [mc]}))
            exp.append((pt, "book", None))
    return lines, exp


class Recorder(BaseStrategy):
    def __init__(self, failures, **kw):
        super().__init__(**kw)
        self.F = failures
        self.seq = []
        self.closed_calls = []
        self.placed = {}
        self.was_closed = set()
        self.was_reopened = set()
        self.was_reopened_early = set()  # no new orders after a re-open (the closing summaries are compared with the orders placed before)
        self.fault_at = None  # index of the callback at which a call made under real_time() raises (contained by the framework)
        self.ncb = 0

    def fail(self, prop, msg):
        if len(self.F.setdefault(prop, [])) < 3:
            self.F[prop].append(msg)

    def check_market_book(self, market, market_book):
        return True

    def process_market_book(self, market, market_book):
        now = _dt.datetime.utcnow()
        if now != market_book.publish_time:
            self.fail("C14", "clock %s != publish time %s of the update being processed" % (now, market_book.publish_time))
            if self.fault_at is not None and self.ncb >= self.fault_at:
                # C13: the exception raised inside the callback was contained, but the framework's state did not stay consistent
                self.fail("C13", "after a contained callback exception (raised under real_time() at callback %d) the framework clock is the wall clock: %s != publish time %s" % (self.fault_at, now, market_book.publish_time))
        self.seq.append((market.market_id, market_book.publish_time_epoch, "book"))
        if market.market_id in self.was_closed:
            self.was_closed.discard(market.market_id)
            self.was_reopened.add(market.market_id)
            if market.closed or market.orders_cleared or market.market_cleared:
                self.fail("C20", "market %s got data again after a close but is not re-opened with its cleared lists reset (closed=%s orders_cleared=%s market_cleared=%s)" % (market.market_id, market.closed, market.orders_cleared, market.market_cleared))
        if market_book.status == "OPEN":
            # one order per update and market (so that the runner contexts of concurrently open markets are created interleaved)
            os_ = self.placed.setdefault(market.market_id, [])
            keys_ = [(s, h) for s in SELS for h in LINES.get(market.market_id, (0,))]
            if len(os_) < len(keys_) and market.market_id not in self.was_reopened:
                s, h = keys_[len(os_)]
                tr = Trade(market.market_id, s, h, self)
                lines_ = LINES.get(market.market_id, (0,))
                # ordinary market: rests at 2.2; handicap lines: marketable against its OWN line's book (best back price of that line)
                o = tr.create_order("BACK", LimitOrder(2.2 if lines_ == (0,) else line_price(lines_, h), 2.0))
                if market.place_order(o):
                    os_.append(o)
                else:
                    os_.append(None)
        self.ncb += 1
        if self.fault_at is not None and self.ncb == self.fault_at:
            # a strategy doing real I/O under the real clock hits a fault; the framework contains the exception (C13) and the
            # simulated clock must be back for every later update (C14)
            with market.flumine.simulated_datetime.real_time():
                raise ConnectionError("injected fault under real_time()")

    def process_closed_market(self, market, market_book):
        now = _dt.datetime.utcnow()
        if now != market_book.publish_time:
            self.fail("C14", "clock != publish time in the closed-market callback")
        self.seq.append((market.market_id, market_book.publish_time_epoch, "closed"))
        self.closed_calls.append((market.market_id, market_book.publish_time_epoch))
        self.was_closed.add(market.market_id)
        if not market.closed:
            self.fail("C20", "closed-market callback with market.closed == False")
        if market.market_book is not market_book:
            self.fail("C20", "the market does not hold the final book when the closed-market callback runs")
        status = {(r.selection_id, r.handicap): r.status for r in market_book.runners}
        for o in market.blotter:
            want = status.get((o.selection_id, o.handicap))
            if o.runner_status != want:
                self.fail("C20", "order on runner %s carries result %s, the closing book says %s" % (o.selection_id, o.runner_status, want))
            if o.market_type != market_book.market_definition.market_type:
                self.fail("C20", "order does not carry the market's settlement terms")
            lines_ = LINES.get(market.market_id, (0,))
            if o.trade.strategy is not self:
                continue
            if lines_ != (0,) and o.status is not None and o.status.value != "Pending" and o.size_matched > 0 and abs(o.average_price_matched - line_price(lines_, o.handicap)) > 1e-6:
                self.fail("C05", "order on selection %s line %s matched at %s, its own line's book offers %s: matched against another line's book" % (o.selection_id, o.handicap, o.average_price_matched, line_price(lines_, o.handicap)))
            if lines_ != (0,) and o.status is not None and o.status.value == "Executable" and o.size_matched == 0 and market.market_id not in self.was_reopened_early:
                self.fail("C05", "marketable order on selection %s line %s (limit %s = best price of its own line) was not matched: it was matched against another line's book" % (o.selection_id, o.handicap, o.order_type.price))


class Limiter(BaseStrategy):
    """C10: max_live_trade_count=1 - while its first trade on a runner (selection AND handicap line) is live, a second trade on the
    same runner is refused; runners are keyed by market, selection and handicap"""

    def __init__(self, failures, **kw):
        super().__init__(**kw)
        self.F = failures
        self.first = {}
        self.closed_once = set()  # a closure releases the runner accounting of the market (C20): no statement about limits after it

    def check_market_book(self, market, market_book):
        return True

    def process_closed_market(self, market, market_book):
        self.closed_once.add(market.market_id)

    def process_market_book(self, market, market_book):
        if market_book.status != "OPEN" or market.market_id in self.closed_once:
            return
        lines_ = LINES.get(market.market_id, (0,))
        s, h = SELS[-1], lines_[-1]
        if market.market_id not in self.first:
            tr = Trade(market.market_id, s, h, self)
            o = tr.create_order("BACK", LimitOrder(50.0, 2.0))  # far from the book: rests, the trade stays live
            self.first[market.market_id] = o if market.place_order(o) else None
        elif self.first[market.market_id] is not None and self.first[market.market_id] is not True:
            o1 = self.first[market.market_id]
            if o1.status is not None and o1.status.value == "Executable":
                tr = Trade(market.market_id, s, h, self)
                o2 = tr.create_order("BACK", LimitOrder(50.0, 2.0))
                if market.place_order(o2):
                    if len(self.F.setdefault("C10", [])) < 3:
                        self.F["C10"].append("market %s selection %s line %s: a second trade was accepted while the first is live although max_live_trade_count=1 (live trades counted for the runner: %s)" % (
                            market.market_id, s, h, [len(c.live_trades) for k, c in self._invested.items() if k[0] == market.market_id]))
                self.first[market.market_id] = True


class Cleared(LoggingControl):
    NAME = "REC"

    def __init__(self):
        super().__init__()
        self.cleared_orders = []
        self.cleared_markets = []
        self.closes = []

    def _process_cleared_orders_meta(self, event):
        self.cleared_orders.append(len(event.event))

    def _process_cleared_markets(self, event):
        self.cleared_markets.append([o["marketId"] if isinstance(o, dict) else getattr(o, "market_id", None) for o in event.event.orders])

    def _process_closed_market(self, event):
        self.closes.append(1)


def run_once(paths, failures, fault_at=None):
    client = clients.SimulatedClient()
    fw = FlumineSimulation(client=client)
    st = Recorder(failures, market_filter={"markets": paths, "event_processing": True}, max_order_exposure=1e6, max_selection_exposure=1e6, max_live_trade_count=1000)
    st.fault_at = fault_at
    fw.add_strategy(Limiter(failures, market_filter={"markets": paths, "event_processing": True}, max_order_exposure=1e6, max_selection_exposure=1e6, max_live_trade_count=1, name="limiter"))
    fw.add_strategy(st)
    lc = Cleared()
    fw.add_logging_control(lc)
    fw.run()
    return st, lc


def iso(ms_):
    return REAL_DATETIME.utcfromtimestamp(ms_ / 1000).strftime("%Y-%m-%dT%H:%M:%S.000Z")


class FilterRecorder(BaseStrategy):
    def __init__(self, **kw):
        super().__init__(**kw)
        self.got = []

    def check_market_book(self, market, market_book):
        return True

    def process_market_book(self, market, market_book):
        self.got.append(market_book.publish_time_epoch)


def run_filtered(rnd, tmp, it, failures):
    """C14 completeness under the listener's filters: a single recorded market whose scheduled start (marketTime) is changed by a
    later market definition; listener filter seconds_to_start=X.  Oracle from the statement: an update passes iff the market is
    not OPEN or (scheduled start IN FORCE at that update - publish time) <= X; exactly those are delivered, once, in file order."""
    X = rnd.choice([120, 300, 600])
    start = T0 + rnd.choice([400, 900, 1500]) * 1000
    mid = "1.%09d" % (300000000 + it)
    n = rnd.randint(8, 30)
    step = rnd.choice([20, 30, 60]) * 1000
    change_at = rnd.randint(2, n - 2) if rnd.random() < 0.7 else None
    new_start = start + rnd.choice([-600, -300, -120, 120, 300, 900]) * 1000
    lines, expected = [], []
    pt, cur_start, status, version = T0, start, "OPEN", 100
    for t in range(n):
        pt += step
        mc = {"id": mid, "rc": [{"id": s, "atb": [[2.0, 20]], "atl": [[2.2, 20]], "trd": [[2.0, 10.0 + t]]} for s in SELS]}
        if t == 0 or t == change_at or rnd.random() < 0.1:
            if t == change_at:
                cur_start = new_start
            elif t > 0:
                status = rnd.choice(["OPEN", "OPEN", "SUSPENDED"]) if status == "OPEN" else "OPEN"
            version += 1
            d = md(status, version)
            d["marketTime"] = iso(cur_start)
            d["suspendTime"] = iso(cur_start)
            mc["marketDefinition"] = d
        lines.append(json.dumps({"op": "mcm", "clk": "A", "pt": pt, "mc": [mc]}))
        if status != "OPEN" or (cur_start - pt) / 1000.0 <= X:
            expected.append(pt)
    p = os.path.join(tmp, mid)
    open(p, "w").write("\n".join(lines) + "\n")
    client = clients.SimulatedClient()
    fw = FlumineSimulation(client=client)
    st = FilterRecorder(market_filter={"markets": [p], "listener_kwargs": {"seconds_to_start": X}})
    fw.add_strategy(st)
    fw.run()
    if st.got != expected:
        failures.setdefault("C14", []).append("listener filter seconds_to_start=%d, scheduled start moved by a later definition (update %s): delivered %d updates %s..., %d pass the filter %s..." % (
            X, change_at, len(st.got), st.got[:4], len(expected), expected[:4]))


def main():
    rnd = random.Random(a.seed)
    failures = {}
    evaluations = 0
    distinct = set()
    tmp = tempfile.mkdtemp(prefix="simmulti_")
    try:
        for it in range(a.n):
            nm = rnd.randint(1, 4)
            paths, expected = [], {}
            for k in range(nm):
                mid = "1.%09d" % (200000000 + it * 10 + k)
                lines, exp = build_market(rnd, mid, T0 + rnd.choice([0, 0, 250, 5000]))
                p = os.path.join(tmp, mid)
                open(p, "w").write("\n".join(lines) + "\n")
                paths.append(p)
                expected[mid] = exp
            try:
                fault_at = rnd.choice([None, None, rnd.randint(1, 6)])
                st, lc = run_once(paths, failures, fault_at)
                st2, lc2 = run_once(paths, {}, fault_at)
            except Exception:
                import traceback
                failures.setdefault("CRASH", []).append(traceback.format_exc()[-900:])
                break
            evaluations += 2
            distinct.add((nm, tuple(len(v) for v in expected.values())))
            try:
                run_filtered(rnd, tmp, it, failures)
                evaluations += 1
            except Exception:
                import traceback
                failures.setdefault("CRASH", []).append(traceback.format_exc()[-900:])
                break
            if _dt.datetime is not REAL_DATETIME:
                failures.setdefault("C14", []).append("the real datetime class is not restored after the run")
                _dt.datetime = REAL_DATETIME
            # C14: exactly once, per-market order, global chronology, determinism
            for mid, exp in expected.items():
                got = [(pt, kind) for m, pt, kind in st.seq if m == mid]
                want = [(pt, kind) for pt, kind, w in exp]
                if got != want:
                    failures.setdefault("C14", []).append("market %s: delivered %s, the file holds %s" % (mid, got[:12], want[:12]))
            pts = [pt for m, pt, kind in st.seq]
            if nm > 1 and any(x > y for x, y in zip(pts, pts[1:])):
                i = next(i for i, (x, y) in enumerate(zip(pts, pts[1:])) if x > y)
                failures.setdefault("C14", []).append("event group not interleaved in publish-time order: %s delivered before %s" % (st.seq[i], st.seq[i + 1]))
            if st.seq != st2.seq:
                failures.setdefault("C14", []).append("two runs over the same files delivered different sequences")
            # C20: one callback / one cleared-orders report (orders exist) / one cleared-market summary per closing update
            n_closed = sum(1 for exp in expected.values() for pt, kind, w in exp if kind == "closed")
            if len(st.closed_calls) != n_closed:
                failures.setdefault("C20", []).append("%d closing updates, %d closed-market callbacks" % (n_closed, len(st.closed_calls)))
            # C20: strategy runner accounting for a market is released when the market is removed (in simulation: at its closure),
            # whatever the order in which the contexts of concurrently open markets were created
            ends_closed = {mid for mid, exp in expected.items() if exp and exp[-1][1] == "closed"}
            left = sorted({k[0] for k in st._invested if k[0] in ends_closed})
            if left:
                failures.setdefault("C20", []).append("after the run the strategy still holds runner contexts of removed market(s) %s (%d contexts in all)" % (left, len(st._invested)))
            if len(lc.cleared_markets) != n_closed:
                failures.setdefault("C20", []).append("%d closing updates, %d cleared-market summaries" % (n_closed, len(lc.cleared_markets)))
            if sum(len(v) for v in failures.values()) > 6:
                break
    finally:
        shutil.rmtree(tmp, ignore_errors=True)
    print(json.dumps(dict(evaluations=evaluations, distinct=len(distinct), failures={k: v[:3] for k, v in failures.items()})))


main()
