"""Bounded scenario stand-in (never counted as proved): real FlumineSimulation runs over synthetic market files.

Random market histories (ladders, traded volume, suspend / re-open with version change, turn in-play with a bet delay, close)
and scripted random strategies (place / cancel full or partial / replace, fill-or-kill, both persistence types) are run through
the REAL framework; monitors evaluate, at every strategy callback, clauses of several properties on the real objects:

  C01  a price replacement puts no more at risk than was risk-checked: the replacement order's size is what was cancelled from
       the order it replaces (its unmatched remainder), never more
  C03  every status an order passes through follows the lifecycle; a completed order never becomes live again
  C04  size == matched + remaining + cancelled + lapsed + voided, matched/remaining >= 0, complete <=> nothing remains, matched monotone
  C05  every fragment within the order's limit; a fill-or-kill order never rests
  C06  per update, strategy and runner: passive fills <= half the traded-volume increase of that update (+0.01 per order)
  C07  the clock seen in callbacks is the publish time; nothing is acknowledged before request time + latency (+ bet delay);
       a request that is due (latency elapsed) when an update - including the CLOSED one - arrives is no longer in flight after it
  C10  live_trades of a runner context == placed trades with an order that is not complete; trade complete <=> all orders complete
  C13  a strategy's ledger is identical whether it runs alone or next to another strategy (isolation on)
  C15  every order exactly once in the blotter and in each view; the live list holds every order that is not complete

The script deliberately stays away from the inputs of the recorded known findings (no runner removal, no request while the
market is not OPEN - a refused cancel marks the live order VIOLATION (P1) -, no market_version on requests, one replace per
transaction, no starting-price orders), so any failure it reports is outside those regions.
usage: sim_scenarios.py --repo R --n N --seed S      -> last line: JSON {evaluations, distinct, failures: {Cxx: [...]}}
"""
import argparse, json, logging, os, random, shutil, sys, tempfile

ap = argparse.ArgumentParser(); ap.add_argument("--repo", default="/repo"); ap.add_argument("--n", type=int, default=12); ap.add_argument("--seed", type=int, default=0)
a = ap.parse_args()
sys.path.insert(0, a.repo); os.chdir(a.repo)
import flumine
assert os.path.abspath(flumine.__file__).startswith(os.path.abspath(a.repo)), flumine.__file__
from flumine import FlumineSimulation, clients, BaseStrategy, config
from flumine.order.trade import Trade, TradeStatus
from flumine.order.order import OrderStatus
from flumine.order.ordertype import LimitOrder, OrderTypes
import datetime as _dt

logging.disable(logging.CRITICAL)
EPS = 1e-6
STATS = dict(orders=0, matched=0, part_matched=0, cancelled=0, lapsed=0, replaced=0, fok=0)
T0 = 1650000000000
SELS = [111, 222, 333]
LADDER = [1.5, 1.6, 1.7, 1.8, 1.9, 2.0, 2.1, 2.2, 2.3, 2.4, 2.5]

LEGAL = {
    None: {OrderStatus.PENDING, OrderStatus.VIOLATION},
    OrderStatus.PENDING: {OrderStatus.EXECUTABLE, OrderStatus.EXECUTION_COMPLETE},
    OrderStatus.EXECUTABLE: {OrderStatus.EXECUTABLE, OrderStatus.CANCELLING, OrderStatus.UPDATING, OrderStatus.REPLACING, OrderStatus.EXECUTION_COMPLETE},
    OrderStatus.CANCELLING: {OrderStatus.EXECUTABLE, OrderStatus.EXECUTION_COMPLETE},
    OrderStatus.UPDATING: {OrderStatus.EXECUTABLE, OrderStatus.EXECUTION_COMPLETE},
    OrderStatus.REPLACING: {OrderStatus.EXECUTABLE, OrderStatus.EXECUTION_COMPLETE},
    OrderStatus.EXECUTION_COMPLETE: {OrderStatus.EXECUTION_COMPLETE},
}


def market_definition(mid, status, version, inplay, bet_delay, closed=False):
    runners = [{"status": "ACTIVE", "sortPriority": i + 1, "id": s} for i, s in enumerate(SELS)]
    if closed:
        for i, r in enumerate(runners):
            r["status"] = "WINNER" if i == 0 else "LOSER"
    return {"bspMarket": False, "turnInPlayEnabled": True, "persistenceEnabled": True, "marketBaseRate": 5, "eventId": "31389771", "eventTypeId": "7",
            "numberOfWinners": 1, "bettingType": "ODDS", "marketType": "WIN", "marketTime": "2022-04-15T12:00:00.000Z", "suspendTime": "2022-04-15T12:00:00.000Z",
            "bspReconciled": False, "complete": True, "inPlay": inplay, "crossMatching": True, "runnersVoidable": False,
            "numberOfActiveRunners": 0 if closed else len(SELS), "betDelay": bet_delay, "status": status, "runners": runners, "regulators": ["MR_INT"],
            "venue": "Test", "countryCode": "GB", "discountAllowed": True, "timezone": "Europe/London", "openDate": "2022-04-15T11:00:00.000Z",
            "version": version, "priceLadderDefinition": {"type": "CLASSIC"}}


def build_history(rnd, mid):
    """-> (lines, meta per tick: pt, traded increment per runner {price: inc}, status)"""
    nt = rnd.randint(12, 28)
    lines, meta = [], []
    version, status, inplay, delay = 100, "OPEN", False, 0
    cum = {s: {} for s in SELS}
    mids = {s: rnd.randint(2, 8) for s in SELS}
    state = {s: {"atb": {}, "atl": {}} for s in SELS}  # the ladder in force per runner (price -> size), for the C07 arrival monitor
    pt = T0
    for t in range(nt):
        pt += rnd.choice([50, 50, 100, 200, 500, 1000, 1000, 2000, 3000])  # short gaps: responses race with fills (latencies are 120-280 ms)
        md = None
        if t == 0:
            md = market_definition(mid, status, version, inplay, delay)
        else:
            r = rnd.random()
            if status == "OPEN" and r < 0.08:
                status, version = "SUSPENDED", version + 1
                md = market_definition(mid, status, version, inplay, delay)
            elif status == "SUSPENDED" and r < 0.6:
                status, version = "OPEN", version + 1
                md = market_definition(mid, status, version, inplay, delay)
            elif status == "OPEN" and not inplay and r > 0.93:
                inplay, delay, version = True, rnd.choice([1, 3, 5]), version + 1
                md = market_definition(mid, status, version, inplay, delay)
        rc = []
        inc_t = {}
        for s in SELS:
            if rnd.random() < 0.25:
                mids[s] = max(1, min(len(LADDER) - 2, mids[s] + rnd.choice([-1, 1])))
            m = mids[s]
            d = {"id": s}
            if t == 0 or rnd.random() < 0.5:
                d["atb"] = [[LADDER[m - 1], rnd.choice([5.0, 20.0, 50.0])]] + ([[LADDER[m - 2], rnd.choice([10.0, 30.0])]] if m >= 2 else [])
                d["atl"] = [[LADDER[m + 1], rnd.choice([5.0, 20.0, 50.0])]] + ([[LADDER[m + 2], rnd.choice([10.0, 30.0])]] if m + 2 < len(LADDER) else [])
                # remove stale levels
                for k, side in (("atb", 0), ("atl", 1)):
                    present = {p for p, _ in d[k]}
                    state[s][k] = {p: v for p, v in d[k]}
                    for p in LADDER:
                        if p not in present:
                            d[k].append([p, 0])
            inc = {}
            if status == "OPEN" and (t == 0 or rnd.random() < 0.6):
                for _ in range(rnd.randint(1, 2)):
                    p = LADDER[max(0, min(len(LADDER) - 1, m + rnd.choice([-1, 0, 0, 1])))]
                    v = rnd.choice([1.0, 4.0, 8.0, 15.0, 0.5, 40.0])
                    cum[s][p] = round(cum[s].get(p, 0.0) + v, 2)
                    inc[p] = round(inc.get(p, 0.0) + v, 2)
                d["trd"] = [[p, cum[s][p]] for p in inc]
            if len(d) > 1:
                rc.append(d)
            inc_t[s] = inc if t > 0 else {}
        mc = {"id": mid}
        if md is not None:
            mc["marketDefinition"] = md
        if rc:
            mc["rc"] = rc
        lines.append(json.dumps({"op": "mcm", "clk": "AAA", "pt": pt, "mc": [mc]}))
        meta.append(dict(pt=pt, inc=inc_t, status=status, delay=delay, book={s_: {k: dict(v) for k, v in state[s_].items()} for s_ in SELS}))
    pt += 1000
    lines.append(json.dumps({"op": "mcm", "clk": "AAA", "pt": pt, "mc": [{"id": mid, "marketDefinition": market_definition(mid, "CLOSED", version + 1, inplay, delay, closed=True)}]}))
    return lines, meta


# ---- harness-side observation (nothing in the repository is edited): which simulated response preceded a re-opening
from flumine.simulation.simulatedorder import SimulatedOrder as _SO
from flumine.order.order import BaseOrder as _BO

LAST_RESPONSE = [None]
P6_REOPENED = set()
P6_COUNT = [0]
REOPENED_AFTER_SUCCESS = []


def _wrap_response(name):
    orig = getattr(_SO, name)

    def rec(self, *a_, **k_):
        r = orig(self, *a_, **k_)
        LAST_RESPONSE[0] = (name, getattr(r, "status", None))
        return r

    setattr(_SO, name, rec)


for _n in ("cancel", "update", "place"):
    _wrap_response(_n)
_orig_executable = _BO.executable


def _executable(self):
    if self.status == OrderStatus.EXECUTION_COMPLETE:
        if LAST_RESPONSE[0] is not None and LAST_RESPONSE[0][1] == "FAILURE":
            P6_REOPENED.add(id(self))
            P6_COUNT[0] += 1
        else:
            REOPENED_AFTER_SUCCESS.append("order %s: completed order re-opened (EXECUTABLE) after a %s response %s" % (self.id[-5:], LAST_RESPONSE[0] and LAST_RESPONSE[0][0], LAST_RESPONSE[0] and LAST_RESPONSE[0][1]))
    return _orig_executable(self)


_BO.executable = _executable


class Scripted(BaseStrategy):
    """random but reproducible behaviour driven by its own RNG (so that it behaves the same alone and next to another strategy)"""

    def __init__(self, rseed, meta, failures, monitor=True, **kw):
        super().__init__(**kw)
        self.rnd = random.Random(rseed)
        self.meta = meta
        self.F = failures
        self.monitor = monitor
        self.tick = -1
        self.mine = []
        self.req = {}  # order id -> (request clock, delay)
        self.inflight = {}  # order id -> (request clock, delay, kind) of the last place / cancel / replace request
        self.prev = {}
        self.ledger = []

    def check_market_book(self, market, market_book):
        return True

    def fail(self, prop, msg):
        if len(self.F.setdefault(prop, [])) < 3:
            self.F[prop].append(msg)

    # ------------------------------------------------------------------ monitors
    INFLIGHT = (OrderStatus.CANCELLING, OrderStatus.UPDATING, OrderStatus.REPLACING)

    def tainted(self, o):
        """recorded known finding P6: a FAILURE response to a request that was in flight re-opens an order that completed
        meanwhile (e.g. lapsed on a suspension between request and response): ... in-flight, Execution complete, Executable.
        Attributed at the moment of the re-opening call (see the harness wrappers below): only a re-opening that directly
        follows a FAILURE response of the simulated exchange is in the recorded region; one that follows a SUCCESS response is not."""
        return id(o) in P6_REOPENED

    def monitors(self, market, where):
        if not self.monitor:
            return
        taint = {id(o) for o in market.blotter if self.tainted(o)}
        if taint:
            STATS["known_region_P6_orders"] = STATS.get("known_region_P6_orders", 0) + 1
        taint_trades = {o.trade.id for o in market.blotter if id(o) in taint}
        now = _dt.datetime.utcnow()
        book = market.market_book
        if book is not None and now != book.publish_time:
            self.fail("C07", "%s tick %d: clock %s != publish time %s" % (where, self.tick, now, book.publish_time))
        blot = market.blotter
        orders = list(blot)
        # C15
        ids = [o.id for o in orders]
        if len(set(ids)) != len(ids):
            self.fail("C15", "duplicate order ids in the blotter")
        for o in orders:
            st = o.trade.strategy
            views = {"strategy": blot._strategy_orders[st], "selection": blot._strategy_selection_orders[(st, o.selection_id, o.handicap)],
                     "client": blot._client_orders[o.client], "client_strategy": blot._client_strategy_orders[(o.client, st)], "trade": blot._trades[o.trade]}
            for vn, v in views.items():
                if sum(1 for x in v if x is o) != 1:
                    self.fail("C15", "%s tick %d: order %s appears %d times in the %s view" % (where, self.tick, o.id, sum(1 for x in v if x is o), vn))
            if blot._orders.get(o.id) is not o:
                self.fail("C15", "lookup by id does not return the object placed")
            if o.trade.strategy is self and not any(x is o for x in self.mine) and o.bet_id is not None and blot.get_order_bet_id(o.bet_id) is not o:
                self.fail("C15", "%s tick %d: replacement order with bet id %s is not found under its bet id" % (where, self.tick, o.bet_id))
            if id(o) not in taint and not o.complete and not any(x is o for x in blot._live_orders):
                self.fail("C15", "%s tick %d: order %s (%s) is not complete but left the live list" % (where, self.tick, o.id, o.status))
        for o in self.mine:
            if o.id not in blot._orders and o.status not in (None, OrderStatus.VIOLATION):
                self.fail("C15", "placed order %s is missing from the blotter" % o.id)
        # C01: replacement orders (created by the framework, found through the trade) carry exactly the cancelled remainder
        for tr in {x.trade for x in orders if x.trade.strategy is self}:
            chain = list(tr.orders)
            for prev_o, repl in zip(chain, chain[1:]):
                if repl.order_type.ORDER_TYPE == OrderTypes.LIMIT and prev_o.order_type.ORDER_TYPE == OrderTypes.LIMIT and not any(x is repl for x in self.mine):
                    if repl.order_type.size > prev_o.size_cancelled + EPS or repl.order_type.size > prev_o.order_type.size - prev_o.size_matched + EPS:
                        self.fail("C01", "%s tick %d: replacement of order %s has size %s, but only %s was cancelled from it (size %s, matched %s): more is at risk than the replace request was checked for"
                                  % (where, self.tick, prev_o.id[-5:], repl.order_type.size, prev_o.size_cancelled, prev_o.order_type.size, prev_o.size_matched))
        for o in [x for x in orders if x.trade.strategy is self and id(x) not in taint]:
            # C03
            log = [None] + list(o.status_log)
            for p, q in zip(log, log[1:]):
                if q not in LEGAL.get(p, set()):
                    self.fail("C03", "order %s: illegal transition %s -> %s (log %s)" % (o.id, p and p.value, q.value, [s.value for s in o.status_log]))
                    break
            if o.order_type.ORDER_TYPE != OrderTypes.LIMIT:
                continue
            size = o.order_type.size
            m, r, c, l, v = o.size_matched, o.size_remaining, o.size_cancelled, o.size_lapsed, o.size_voided
            ctx = "%s tick %d order %s %s %s@%s [%s]" % (where, self.tick, o.id[-5:], o.side, size, o.order_type.price, o.status.value if o.status else None)
            if o.status in (None, OrderStatus.PENDING):
                if m > EPS:
                    self.fail("C07", "%s: matched %s while still pending" % (ctx, m))
            # C04
            if abs(size - (m + r + c + l + v)) > EPS:
                self.fail("C04", "%s: size != m+r+c+l+v (%s %s %s %s %s)" % (ctx, m, r, c, l, v))
            if m < -EPS or r < -EPS:
                self.fail("C04", "%s: negative bucket m=%s r=%s" % (ctx, m, r))
            # (a request executed against the last book before the CLOSED update is only completed by the per-update pass that
            #  a CLOSED book no longer gets: the clause is stated at the per-update callbacks, DESIGN C04)
            if where != "process_closed_market" and o.status not in (None, OrderStatus.PENDING, OrderStatus.VIOLATION) and o.complete != (abs(r) <= EPS):
                self.fail("C04", "%s: complete=%s but remaining=%s" % (ctx, o.complete, r))
            pm = self.prev.get(o.id, (0.0, None))[0]
            if m < pm - EPS:
                self.fail("C04", "%s: matched decreased %s -> %s" % (ctx, pm, m))
            # C05
            for f in o.simulated.matched:
                if (o.side == "BACK" and f[1] < o.order_type.price - EPS) or (o.side == "LAY" and f[1] > o.order_type.price + EPS):
                    if o.order_type.time_in_force != "FILL_OR_KILL":
                        self.fail("C05", "%s: fragment at %s breaches the limit" % (ctx, f[1]))
            if o.order_type.time_in_force == "FILL_OR_KILL" and o.status == OrderStatus.EXECUTABLE and r > EPS:
                self.fail("C05", "%s: fill-or-kill order rests with %s remaining" % (ctx, r))
            # C07 acknowledgement not before request + delay
            rq = self.req.get(o.id)
            if rq and o.status not in (None, OrderStatus.PENDING) and o.responses.date_time_placed is not None:
                if (o.responses.date_time_placed - rq[0]).total_seconds() <= rq[1] - 1e-9:
                    self.fail("C07", "%s: acknowledged %.3fs after the request, delay is %.3fs" % (ctx, (o.responses.date_time_placed - rq[0]).total_seconds(), rq[1]))
        # C10
        for key, ctxt in self._invested.items():
            trades = {}
            for o in self.mine:
                if o.lookup == key and o.id in blot._orders:
                    trades.setdefault(o.trade.id, []).append(o)
            for t_orders in trades.values():
                for x in list(t_orders[0].trade.orders):
                    if x not in t_orders:
                        t_orders.append(x)
            if any(tid in taint_trades for tid in trades):
                continue
            live = {tid for tid, os_ in trades.items() if any(not x.complete for x in os_)}
            if set(ctxt.live_trades) != live:
                self.fail("C10", "%s tick %d runner %s: live_trades %d != trades with an incomplete order %d" % (where, self.tick, key[1], len(ctxt.live_trades), len(live)))
            if len(set(ctxt.trades)) != len(ctxt.trades) or set(ctxt.trades) != set(trades):
                self.fail("C10", "%s tick %d runner %s: trade count %d != distinct trades placed %d" % (where, self.tick, key[1], len(ctxt.trades), len(trades)))
            for tid, os_ in trades.items():
                tr = os_[0].trade
                if (tr.status == TradeStatus.COMPLETE) != all(x.complete for x in tr.orders):
                    self.fail("C10", "%s tick %d: trade status %s but orders complete=%s" % (where, self.tick, tr.status.value, [x.complete for x in tr.orders]))

    def passive_fill_monitor(self, market):
        """C06: fills of orders that were resting before this update <= half of this update's traded increase on the runner"""
        if not self.monitor or self.tick <= 0 or self.tick >= len(self.meta):
            return
        inc = self.meta[self.tick]["inc"]
        per = {}
        n = {}
        for o in self.mine:
            if o.order_type.ORDER_TYPE != OrderTypes.LIMIT or o.id not in self.prev:
                continue
            pm, pstatus = self.prev[o.id]
            if pstatus in (OrderStatus.EXECUTABLE, OrderStatus.CANCELLING, OrderStatus.REPLACING, OrderStatus.UPDATING):
                d = o.size_matched - pm
                if d > EPS:
                    per[o.selection_id] = per.get(o.selection_id, 0.0) + d
                    n[o.selection_id] = n.get(o.selection_id, 0) + 1
        if config.simulation_available_prices:
            # per order: the fill of this update <= half the traded increase + the sizes on offer at or through its limit in this book
            book = self.meta[self.tick]["book"]
            for o in self.mine:
                if o.order_type.ORDER_TYPE != OrderTypes.LIMIT or o.id not in self.prev or o.selection_id not in book:
                    continue
                pm, pstatus = self.prev[o.id]
                if pstatus not in (OrderStatus.EXECUTABLE, OrderStatus.CANCELLING, OrderStatus.REPLACING, OrderStatus.UPDATING):
                    continue
                d = o.size_matched - pm
                side = "atb" if o.side == "BACK" else "atl"
                offer = sum(v for p_, v in book[o.selection_id][side].items() if (p_ >= o.order_type.price - EPS if o.side == "BACK" else p_ <= o.order_type.price + EPS))
                cap = sum(inc.get(o.selection_id, {}).values()) / 2.0 + offer
                if d > cap + 0.01 + EPS:
                    self.fail("C05", "tick %d order %s %s %s@%s (available-price matching on): filled %.2f in one update, but only %.2f is on offer at or through its limit (levels %s) plus %.2f traded" % (
                        self.tick, o.id[-5:], o.side, o.order_type.size, o.order_type.price, d, offer, sorted(book[o.selection_id][side].items()), cap - offer))
            return
        for s, tot in per.items():
            cap = sum(inc.get(s, {}).values()) / 2.0
            if tot > cap + 0.01 * n[s] + EPS:
                self.fail("C06", "tick %d runner %s: resting orders of one strategy filled %.2f out of %.2f traded (half = %.2f)" % (self.tick, s, tot, 2 * cap, cap))

    # ------------------------------------------------------------------ behaviour
    def process_orders(self, market, orders):
        self.monitors(market, "process_orders")

    def process_market_book(self, market, market_book):
        self.tick += 1
        self.passive_fill_monitor(market)
        self.monitors(market, "process_market_book")
        self.due_requests_monitor("process_market_book")
        self.arrival_monitor()
        for o in self.mine:
            if o.order_type.ORDER_TYPE == OrderTypes.LIMIT:
                self.prev[o.id] = (o.size_matched, o.status)
        self.ledger.append((self.tick, [(o.side, o.order_type.price, o.order_type.size, o.status.value if o.status else None, o.size_matched, o.size_remaining, o.size_cancelled, o.size_lapsed,
                                         [(f[1], f[2]) for f in o.simulated.matched], str(o.responses.date_time_placed)) for o in self.mine]))
        if market_book.status != "OPEN":
            return  # a request refused by MarketValidation marks the live order VIOLATION: recorded known finding P1
        rnd = self.rnd
        now = _dt.datetime.utcnow()
        for _ in range(rnd.randint(0, 2)):
            act = rnd.random()
            live = [o for o in self.mine if o.status == OrderStatus.EXECUTABLE and o.order_type.ORDER_TYPE == OrderTypes.LIMIT and o.size_remaining > 0]
            if act < 0.12:
                # competition burst: equal-priced resting orders of one strategy on runner s1, s2, s1 (mid price: nobody queued ahead)
                s1, s2 = rnd.sample(SELS, 2)
                rb = next((r for r in market_book.runners if r.selection_id == s1), None)
                if rb is not None and rb.ex.available_to_back and rb.ex.available_to_lay:
                    bb, bl = rb.ex.available_to_back[0]["price"], rb.ex.available_to_lay[0]["price"]
                    mids_ = [p for p in LADDER if bb < p < bl]
                    if mids_:
                        side = rnd.choice(["BACK", "LAY"])
                        for sel in (s1, s2, s1):
                            tr = Trade(market.market_id, sel, 0, self)
                            o = tr.create_order(side, LimitOrder(mids_[0], rnd.choice([5.0, 10.0]), persistence_type="PERSIST"))
                            if market.place_order(o):
                                self.mine.append(o)
                                self.req[o.id] = (now, config.place_latency + market_book.bet_delay)
                continue
            inflight = [o for o in self.mine if o.status in (OrderStatus.PENDING, OrderStatus.CANCELLING, OrderStatus.REPLACING) and o.order_type.ORDER_TYPE == OrderTypes.LIMIT]
            if inflight and rnd.random() < 0.15:
                # a further request on an order that has a request in flight: rejected with an error and WITHOUT side effects (C03 / C02)
                o = rnd.choice(inflight)
                try:
                    if rnd.random() < 0.6:
                        market.cancel_order(o, size_reduction=rnd.choice([None, 0.5, 1.0, round(o.order_type.size / 2, 2)]))
                    else:
                        market.replace_order(o, rnd.choice([p for p in LADDER if p != o.order_type.price]))
                    self.fail("C03", "a further request on order %s with status %s was accepted" % (o.id[-5:], o.status.value))
                except Exception as e:  # OrderUpdateError / OrderExecutionError
                    if type(e).__name__ not in ("OrderUpdateError", "OrderExecutionError", "OrderError"):
                        raise
                continue
            if act < 0.55 or not live:
                sel = rnd.choice(SELS)
                side = rnd.choice(["BACK", "LAY"])
                price = rnd.choice(LADDER)
                size = rnd.choice([2.0, 5.0, 10.0, 0.5])
                fok = rnd.random() < 0.2
                ot = LimitOrder(price, size, persistence_type=rnd.choice(["LAPSE", "PERSIST"]), time_in_force="FILL_OR_KILL" if fok else None,
                                min_fill_size=rnd.choice([None, size, round(size / 2, 2)]) if fok else None)
                tr = Trade(market.market_id, sel, 0, self)
                o = tr.create_order(side, ot)
                if market.place_order(o):
                    self.mine.append(o)
                    self.req[o.id] = (now, config.place_latency + market_book.bet_delay)
                    self.inflight[o.id] = (now, config.place_latency + market_book.bet_delay, "place")
            elif act < 0.8:
                o = rnd.choice(live)
                red = rnd.choice([None, None, round(o.size_remaining / 2, 2), 0.5])
                if red is not None and (red <= 0 or red > o.size_remaining):
                    red = None
                market.cancel_order(o, size_reduction=red)
                if o.status == OrderStatus.CANCELLING:
                    self.inflight[o.id] = (now, config.cancel_latency, "cancel")
            else:
                o = rnd.choice(live)
                np_ = rnd.choice([p for p in LADDER if p != o.order_type.price])
                market.replace_order(o, np_)
                if o.status == OrderStatus.REPLACING:
                    self.inflight[o.id] = (now, config.replace_latency + market_book.bet_delay, "replace")

    def arrival_monitor(self):
        """C07: a request is executed against the market state that prevailed immediately BEFORE the update at which it takes
        effect.  A fill fragment booked at a price other than the order's own limit is an arrival fill (passive fills are booked
        at the limit): its price must be a level of the previous update's ladder on the side the order takes from, and its size
        at most the size shown there."""
        if not self.monitor or self.tick <= 0 or self.tick >= len(self.meta):
            return
        pt = self.meta[self.tick]["pt"]
        prev = self.meta[self.tick - 1]["book"]
        for o in self.mine:
            if o.order_type.ORDER_TYPE != OrderTypes.LIMIT or o.selection_id not in prev:
                continue
            side = "atb" if o.side == "BACK" else "atl"
            for f in o.simulated.matched:
                if f[0] == pt and abs(f[1] - o.order_type.price) > EPS:
                    shown = prev[o.selection_id][side].get(f[1])
                    if shown is None or f[2] > shown + EPS:
                        self.fail("C06", "tick %d order %s: it arrived against the book AFTER this update (arrival fill %s@%s is not on the previous ladder), yet this update's traded volume is offered to it: volume that traded before it arrived" % (self.tick, o.id[-5:], f[2], f[1]))
                        self.fail("C07", "tick %d order %s %s %s@%s: arrival fill %s@%s, but the ladder in force immediately before this update shows %s at that price (levels %s): the request was not executed against the state before the update"
                                  % (self.tick, o.id[-5:], o.side, o.order_type.size, o.order_type.price, f[2], f[1], shown, sorted(prev[o.selection_id][side])))

    def due_requests_monitor(self, where):
        """C07: a request takes effect at the FIRST update more than its latency (+ bet delay) after it - whatever that update is"""
        if not self.monitor:
            return
        now = _dt.datetime.utcnow()
        for o in self.mine:
            rq = self.inflight.get(o.id)
            if rq is None or o.status not in (OrderStatus.PENDING, OrderStatus.CANCELLING, OrderStatus.REPLACING):
                continue
            waited = (now - rq[0]).total_seconds()
            if waited > rq[1] + 1e-6:
                self.fail("C07", "%s: %s request of order %s made %.3fs ago (latency %.3fs) is still in flight (%s) after an update that came later than its latency" % (where, rq[2], o.id[-5:], waited, rq[1], o.status.value))

    def process_closed_market(self, market, market_book):
        self.monitors(market, "process_closed_market")
        self.due_requests_monitor("process_closed_market")
        if self.monitor:
            for o in [x for x in market.blotter if x.trade.strategy is self]:
                STATS["orders"] += 1
                STATS["matched"] += o.size_matched > 0
                STATS["part_matched"] += 0 < o.size_matched < o.order_type.size
                STATS["cancelled"] += o.size_cancelled > 0
                STATS["lapsed"] += o.size_lapsed > 0
                STATS["replaced"] += not any(x is o for x in self.mine)
                STATS["fok"] += o.order_type.time_in_force == "FILL_OR_KILL"


def run(path, meta, seeds, failures, monitor_idx=None, isolation=True, available=False, listener_kwargs=None):
    config.simulated_strategy_isolation = isolation
    config.simulation_available_prices = available
    client = clients.SimulatedClient()
    fw = FlumineSimulation(client=client)
    strategies = []
    for i, s in enumerate(seeds):
        mf = {"markets": [path]}
        if listener_kwargs and listener_kwargs.get(i):
            mf["listener_kwargs"] = listener_kwargs[i]
        st = Scripted(s, meta, failures, monitor=(monitor_idx is None or i in monitor_idx), market_filter=mf, name="S%d" % s,
                      max_order_exposure=1e6, max_selection_exposure=1e6, max_live_trade_count=1000, max_trade_count=100000)
        fw.add_strategy(st)
        strategies.append(st)
    fw.run()
    return strategies


def main():
    rnd = random.Random(a.seed)
    failures = {}
    evaluations = 0
    distinct = set()
    tmp = tempfile.mkdtemp(prefix="simsc_")
    try:
        for it in range(a.n):
            mid = "1.%09d" % (100000000 + it)
            lines, meta = build_history(rnd, mid)
            path = os.path.join(tmp, mid)
            with open(path, "w") as f:
                f.write("\n".join(lines) + "\n")
            sa, sb = rnd.randint(1, 10**6), rnd.randint(1, 10**6)
            try:
                both = run(path, meta, [sa, sb], failures)
                P6_COUNT[0] = 0
                alone = run(path, meta, [sa], failures)
                p6_alone = P6_COUNT[0]
                swapped = run(path, meta, [sb, sa], failures)
            except Exception as e:
                import traceback
                failures.setdefault("CRASH", []).append(traceback.format_exc()[-900:])
                break
            evaluations += 3
            # isolation switched off: with a single strategy there is nobody to share the traded volume with, so every order -
            # resting, or with a cancel / replace in flight (C07: it remains fillable as before) - is filled exactly as with
            # isolation on (C06: a lone resting order is filled by exactly that amount, in both modes)
            try:
                P6_COUNT[0] = 0
                alone_off = run(path, meta, [sa], failures, isolation=False)
            except Exception:
                import traceback
                failures.setdefault("CRASH", []).append(traceback.format_exc()[-900:])
                break
            finally:
                config.simulated_strategy_isolation = True
            evaluations += 1
            # (an order re-opened inside the recorded region P6 is EXECUTABLE but no longer in the live list: the two modes pick
            #  their candidates from different lists, so the comparison is only made when neither run entered that region)
            if p6_alone == 0 and P6_COUNT[0] == 0 and alone_off[0].ledger != alone[0].ledger:
                d = next((i for i, (x, y) in enumerate(zip(alone[0].ledger, alone_off[0].ledger)) if x != y), None)
                msg = "a strategy running alone is filled differently with strategy isolation off than with it on (first difference at callback %s): on %s / off %s" % (
                    d, str(alone[0].ledger[d])[:400] if d is not None else None, str(alone_off[0].ledger[d])[:400] if d is not None else None)
                for k in ("C06", "C07"):
                    failures.setdefault(k, []).append(msg)
            # C13: a strategy registered AFTER one that restricts its data with listener filters still gets every update of the
            # file (its own stream), so its ledger is the one it has alone
            if it % 4 == 0:
                try:
                    alone_b = run(path, meta, [sb], failures, monitor_idx=set())
                    after_restricted = run(path, meta, [sa, sb], failures, monitor_idx=set(), listener_kwargs={0: rnd.choice([{"inplay": True}, {"inplay": False}, {"seconds_to_start": 1}])})
                except Exception:
                    import traceback
                    failures.setdefault("CRASH", []).append(traceback.format_exc()[-900:])
                    break
                evaluations += 2
                if alone_b[0].ledger != after_restricted[1].ledger:
                    failures.setdefault("C13", []).append("a strategy registered after one with listener filters on the same file does not see the data it sees alone: %d callbacks alone, %d alongside" % (len(alone_b[0].ledger), len(after_restricted[1].ledger)))
            # resting orders also matched against the prices on offer (config.simulation_available_prices): the same conservation /
            # limit monitors, plus the per-update bound of passive_fill_monitor extended by the sizes on offer within the limit
            try:
                run(path, meta, [sa], failures, available=True)
            except Exception:
                import traceback
                failures.setdefault("CRASH", []).append(traceback.format_exc()[-900:])
                break
            finally:
                config.simulation_available_prices = False
            evaluations += 1
            n_orders = len(both[0].mine) + len(both[1].mine)
            distinct.add((len(meta), n_orders, sum(1 for o in both[0].mine if o.size_matched > 0)))
            # C13: ledger of strategy sa identical alone / with sb / registration order swapped
            if alone[0].ledger != both[0].ledger:
                d = next((i for i, (x, y) in enumerate(zip(alone[0].ledger, both[0].ledger)) if x != y), None)
                failures.setdefault("C13", []).append("strategy ledger differs alone vs alongside another strategy (first difference at callback %s): %s vs %s" % (d, alone[0].ledger[d] if d is not None else None, both[0].ledger[d] if d is not None else None))
            if swapped[1].ledger != both[0].ledger:
                failures.setdefault("C13", []).append("strategy ledger depends on the registration order")
            if any(len(v) for v in failures.values()):
                if sum(len(v) for v in failures.values()) > 8:
                    break
    finally:
        shutil.rmtree(tmp, ignore_errors=True)
    if REOPENED_AFTER_SUCCESS:
        for k in ("C03", "C15", "C10", "C09"):  # C09: "the voided order completes whatever state it was in (pending an operation)" rests on the same rule: a late SUCCESS response never re-opens a completed order
            failures.setdefault(k, []).insert(0, REOPENED_AFTER_SUCCESS[0] + " - it is not complete but has left the live list, its trade was completed")
    print(json.dumps(dict(evaluations=evaluations, distinct=len(distinct), stats=STATS, failures={k: v[:3] for k, v in failures.items()})))


main()
