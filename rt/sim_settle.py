"""Bounded scenario stand-in (never counted as proved) for C08 (settlement) and C09 (runner removal).

Real FlumineSimulation runs over small synthetic market files: 3-4 runners, 10-25 updates, moving ladders, traded volume,
1-2 scripted strategies and 1-2 simulated clients (different commission rates) that place plain LIMIT orders on both sides
(crossing the book, resting and filled passively in several fragments), fill-or-kill orders (incl. ones priced through the best
level whose obtainable volume is below min_fill_size), partial / full cancels and REPLACES (mostly by the non-default client);
optionally a runner removal mid-run (REMOVED + adjustmentFactor in {1.0, 2.4, 2.5, 10, 20, 45} on a SUSPENDED update, the
market re-opens on the next one, sometimes a second removal later), further fills afterwards, and a CLOSED update with
WINNER / LOSER results (WIN markets, sometimes a dead heat; some PLACE markets with at most as many winners as places; a few
markets abandoned at settlement = every runner REMOVED in the closing definition). A fifth of the runs hold two markets of
one event processed together (event_processing=True, different selection ids), one closing while the other is still open.

ORACLE: an own ledger of fill fragments, kept by diffing order.simulated.matched at every strategy callback; a removal with
factor f >= 2.5 seen in a callback multiplies the recorded prices of the fragments that existed before it on the OTHER runners
by (1 - f/100) (2 dp, floor 1.01) exactly once per market and voids the recorded fragments of the removed runner. At the close

  C09  order on a runner removed while the market was open: nothing matched, nothing remaining, zero profit, complete
       other orders: fragment prices / size matched / average price == ledger (reduced once; later fragments not reduced)
  C08  order profit == settlement of the LEDGER fragments (winning back sum(size*(price-1)), losing back -sum(size), lays the
       mirror image, win-market dead heat: 1/n of the stake wins, the rest loses; removed / abandoned / unmatched / killed: 0);
       an order with the same fills and the other side has exactly the opposite profit; per client the cleared-market summary
       handed to logging == sum over THAT client's orders (ownership = the client the order, or the order it replaces, was
       placed with), bet count == that client's orders with fills, commission == max(net, 0) x the client's rate

Stays away from the recorded known findings: nothing is cancelled / replaced / fill-or-kill / LAPSE on a runner that is going
to be removed, no starting-price orders, no request while the market is not OPEN, no cancel / replace on the last two updates
before a suspension or the closure, every request is executed at an ordinary update (never at the CLOSED one), no LINE_RANGE
orders, adjustment factors are always numbers, no each-way markets, distinct selection ids in the markets of one run.
A place request on another runner is never scheduled to be executed AT the removal update (its fill would be reduced by the
engine before any callback could record the original price).
usage: sim_settle.py --repo R --n N --seed S      -> last line: JSON {evaluations, distinct, failures: {C08: [...], C09: [...]}}
"""
import argparse, json, logging, os, random, shutil, sys, tempfile, time

ap = argparse.ArgumentParser(); ap.add_argument("--repo", default="/repo"); ap.add_argument("--n", type=int, default=100); ap.add_argument("--seed", type=int, default=0)
ap.add_argument("--only", type=int, default=None, help="run only scenario number K of the sequence (debugging)")
a = ap.parse_args()
sys.path.insert(0, a.repo); os.chdir(a.repo)
import flumine
assert os.path.abspath(flumine.__file__).startswith(os.path.abspath(a.repo)), flumine.__file__
from flumine import FlumineSimulation, clients, BaseStrategy
from flumine.order.trade import Trade
from flumine.order.order import OrderStatus
from flumine.order.ordertype import LimitOrder, OrderTypes
from flumine.controls.loggingcontrols import LoggingControl

logging.disable(logging.CRITICAL)
T0 = 1650000000000
EPS = 1e-9
PLACE_LAT, CANCEL_LAT, REPLACE_LAT = 0.120, 0.170, 0.280  # flumine.config defaults (checked below)
from flumine import config as _cfg
assert (_cfg.place_latency, _cfg.cancel_latency, _cfg.replace_latency) == (PLACE_LAT, CANCEL_LAT, REPLACE_LAT)
# valid CLASSIC ticks, coarse
C = [1.05, 1.1, 1.2, 1.3, 1.4, 1.5, 1.6, 1.7, 1.8, 1.9, 2.0, 2.2, 2.4, 2.6, 2.8, 3.0, 3.2, 3.4, 3.6, 3.8, 4.0, 4.5, 5.0, 5.5, 6.0, 7.0, 8.0, 9.0, 10.0, 12.0, 15.0]
FACTORS = [1.0, 2.4, 2.5, 10.0, 20.0, 45.0]
THRESHOLD = 2.5
STATS = dict(orders=0, matched=0, fragments=0, multi_fragment=0, voided=0, reduced=0, reduced_then_filled=0, fok=0, fok_killed=0, replaced=0,
             replaced_other_client_matched=0, two_clients=0, removal_runs=0, dead_heats=0, place_markets=0, abandoned=0, two_markets=0, skipped=0)


class Plan:
    """what the synthetic file of one market holds (the scripted strategies and the oracle know the schedule)"""
    pass


def market_def(P, status, version, runner_status):
    runners = []
    for i, s in enumerate(P.sels):
        st = runner_status[s]
        r = {"status": st, "sortPriority": i + 1, "id": s, "adjustmentFactor": P.af[s]}
        if st == "REMOVED":
            r["removalDate"] = "2022-04-15T11:30:00.000Z"
        runners.append(r)
    return {"bspMarket": False, "turnInPlayEnabled": True, "persistenceEnabled": True, "marketBaseRate": 5, "eventId": P.event, "eventTypeId": "7",
            "numberOfWinners": P.k, "bettingType": "ODDS", "marketType": P.mtype, "marketTime": "2022-04-15T12:00:00.000Z", "suspendTime": "2022-04-15T12:00:00.000Z",
            "bspReconciled": False, "complete": True, "inPlay": False, "crossMatching": True, "runnersVoidable": False,
            "numberOfActiveRunners": sum(1 for v in runner_status.values() if v == "ACTIVE"), "betDelay": 0, "status": status, "runners": runners,
            "regulators": ["MR_INT"], "venue": "Test", "countryCode": "GB", "discountAllowed": True, "timezone": "Europe/London",
            "openDate": "2022-04-15T11:00:00.000Z", "version": version, "priceLadderDefinition": {"type": "CLASSIC"}}


def build_market(rnd, mid, sel_base, event, start):
    P = Plan()
    nt = rnd.randint(10, 25)
    P.n = nt  # ordinary updates 0..nt-1, the CLOSED update has index nt
    P.mtype = "WIN" if rnd.random() < 0.78 else "PLACE"
    sels = [sel_base + j for j in range(rnd.choice([3, 3, 4]) if P.mtype == "WIN" else rnd.choice([3, 4, 4, 4]))]
    P.mid, P.sels, P.event = mid, sels, event
    P.k = 1 if P.mtype == "WIN" else (2 if len(sels) == 3 else rnd.choice([2, 3, 3]))
    # removals: tick -> (selection, factor); on a SUSPENDED update, the next update re-opens
    P.removals = {}
    if rnd.random() < 0.7:
        tr = rnd.randint(3, nt - 5)
        s1 = rnd.choice(sels)
        P.removals[tr] = (s1, rnd.choice(FACTORS))
        if len(sels) == 4 and rnd.random() < 0.25 and tr + 3 <= nt - 4:
            P.removals[rnd.randint(tr + 3, nt - 4)] = (rnd.choice([s for s in sels if s != s1]), rnd.choice(FACTORS))
    P.doomed = {s: t for t, (s, f) in P.removals.items()}
    suspended = set(P.removals)
    if rnd.random() < 0.2:
        ts = rnd.randint(2, nt - 4)
        if all(abs(ts - t) >= 2 for t in suspended):
            suspended.add(ts)
    P.status = ["SUSPENDED" if t in suspended else "OPEN" for t in range(nt)]
    # adjustment factors: always numbers; the removed runner carries its factor from the start
    P.af = {s: round(100.0 / len(sels), 2) for s in sels}
    for t, (s, f) in P.removals.items():
        P.af[s] = f
    lines, P.pts = [], []
    rs = {s: "ACTIVE" for s in sels}
    mids = {s: rnd.randint(4, len(C) - 5) for s in sels}
    cum = {s: {} for s in sels}
    version, pt = 100, start
    SZ = [2.0, 3.0, 4.0, 6.0, 10.0, 25.0]
    for t in range(nt):
        pt += rnd.choice([100, 150]) if rnd.random() < 0.15 else rnd.choice([300, 500, 1000, 1000, 2000])
        md = None
        if t in P.removals:
            rs[P.removals[t][0]] = "REMOVED"
        if t == 0 or P.status[t] != P.status[t - 1]:
            version += 1
            md = market_def(P, P.status[t], version, rs)
        rc = []
        if P.status[t] == "OPEN":
            for s in sels:
                if rs[s] != "ACTIVE":
                    continue
                moved = False
                if t > 0 and rnd.random() < 0.3:
                    mids[s] = max(3, min(len(C) - 4, mids[s] + rnd.choice([-1, 1])))
                    moved = True
                m = mids[s]
                d = {"id": s}
                if t == 0 or moved or rnd.random() < 0.5:
                    d["atb"] = [[C[m - 1 - j], rnd.choice(SZ)] for j in range(3)]
                    d["atl"] = [[C[m + 1 + j], rnd.choice(SZ)] for j in range(3)]
                    for key in ("atb", "atl"):
                        present = {p for p, _ in d[key]}
                        d[key] += [[p, 0] for p in C if p not in present]
                if t == 0 or rnd.random() < 0.7:
                    inc = {}
                    for _ in range(rnd.randint(1, 2)):
                        p = C[m + rnd.choice([-1, 0, 0, 1])]
                        v = rnd.choice([2.0, 2.0, 4.0, 4.0, 6.0, 10.0, 16.0, 30.0])
                        cum[s][p] = round(cum[s].get(p, 0.0) + v, 2)
                        inc[p] = 1
                    d["trd"] = [[p, cum[s][p]] for p in inc]
                if len(d) > 1:
                    rc.append(d)
        mc = {"id": mid}
        if md is not None:
            mc["marketDefinition"] = md
        if rc:
            mc["rc"] = rc
        lines.append(json.dumps({"op": "mcm", "clk": "AAA", "pt": pt, "mc": [mc]}))
        P.pts.append(pt)
    # result
    active = [s for s in sels if rs[s] == "ACTIVE"]
    P.abandoned = rnd.random() < 0.06
    P.result = dict(rs)
    if P.abandoned:
        for s in active:
            P.result[s] = "REMOVED"
        P.dead_heat = False
    else:
        if P.mtype == "WIN":
            P.dead_heat = rnd.random() < 0.2
            nw = 2 if P.dead_heat else 1
        else:
            P.dead_heat = False
            nw = rnd.randint(max(1, P.k - 1), min(P.k, len(active)))  # never more winners than places; fewer when the field is short
        winners = rnd.sample(active, nw)
        for s in active:
            P.result[s] = "WINNER" if s in winners else "LOSER"
    pt += rnd.choice([500, 1000])
    P.pts.append(pt)
    lines.append(json.dumps({"op": "mcm", "clk": "AAA", "pt": pt, "mc": [{"id": mid, "marketDefinition": market_def(P, "CLOSED", version + 1, P.result)}]}))
    P.index = {p: i for i, p in enumerate(P.pts)}
    return lines, P


def exec_tick(P, t, latency):
    """index of the update at which a request made at update t is executed (first update later than its latency)"""
    for u in range(t + 1, len(P.pts)):
        if P.pts[u] - P.pts[t] > latency * 1000 + 1e-6:
            return u
    return None


# ------------------------------------------------------------------------------------------------ oracle ledger
class Rec:
    __slots__ = ("order", "owner", "sel", "mid", "frags", "void", "reduced", "filled_after_reduction", "lost")

    def __init__(self, order, owner):
        self.order, self.owner, self.sel, self.mid = order, owner, order.selection_id, order.market_id
        self.frags = []  # [publish time, price (reduced by the oracle), size]
        self.void = False
        self.reduced = False
        self.filled_after_reduction = False
        self.lost = False


class Ledger:
    def __init__(self, failures, default_client):
        self.F = failures
        self.default = default_client
        self.owner = {}  # trade id -> client the trade's first order was placed with
        self.recs = {}  # id(order) -> Rec
        self.removed = {}  # market id -> {selection: factor} removals seen in a callback while the market was open
        self.unobservable = False

    def fail(self, prop, msg):
        if len(self.F.setdefault(prop, [])) < 3:
            self.F[prop].append(msg)

    def observe(self, market, closing=False):
        book = market.market_book
        mid = market.market_id
        fresh = set()
        for o in market.blotter:
            rec = self.recs.get(id(o))
            if rec is None:
                owner = self.owner.get(o.trade.id)
                if owner is None:
                    self.fail("C08", "order %s in the blotter belongs to no trade of the scripted strategies" % o.id)
                    continue
                rec = self.recs[id(o)] = Rec(o, owner)
            m = o.simulated.matched
            if len(m) < len(rec.frags):
                if rec.sel not in [r.selection_id for r in book.runners if r.status == "REMOVED"] and not rec.lost:
                    rec.lost = True
                    self.fail("C08", "market %s order %s on runner %s: %d recorded fill fragments, the order now lists %d" % (mid, o.id[-6:], rec.sel, len(rec.frags), len(m)))
                continue
            for f in m[len(rec.frags):]:
                rec.frags.append([f[0], f[1], f[2]])
                fresh.add((id(o), len(rec.frags) - 1))
                if rec.reduced:
                    rec.filled_after_reduction = True
        if closing:
            return  # a runner reported REMOVED only by the closing definition: settlement at zero (C08), nothing to reduce
        seen = self.removed.setdefault(mid, {})
        for r in book.runners:
            if r.status == "REMOVED" and r.selection_id not in seen:
                f = r.adjustment_factor
                seen[r.selection_id] = f
                rpt = book.publish_time_epoch
                for rec in self.recs.values():
                    if rec.mid != mid:
                        continue
                    if rec.sel == r.selection_id:
                        rec.frags = []
                        rec.void = True
                    elif f >= THRESHOLD:
                        for i, fr in enumerate(rec.frags):
                            if fr[0] < rpt:
                                if (id(rec.order), i) in fresh:
                                    self.unobservable = True  # matched and reduced between two callbacks: original price never seen
                                fr[1] = max(round(fr[1] * (1 - f / 100.0), 2), 1.01)
                                rec.reduced = True


def settle(frags, side, status, n_winners, places):
    """what the exchange pays on these fills"""
    S = sum(s for _, _, s in frags)
    W = sum(s * (p - 1.0) for _, p, s in frags)
    if status == "WINNER":
        if n_winners > places:  # dead heat: places/n_winners of the stake wins at full odds, the rest loses
            share = places / float(n_winners)
            v = W * share - S * (1.0 - share)
        else:
            v = W
    elif status == "LOSER":
        v = -S
    else:
        v = 0.0
    return v if side == "BACK" else -v


# ------------------------------------------------------------------------------------------------ scripted strategy
class Scripted(BaseStrategy):
    def __init__(self, rseed, plans, ledger, clist, **kw):
        super().__init__(**kw)
        self.rnd = random.Random(rseed)
        self.plans, self.L, self.clist = plans, ledger, clist

    def check_market_book(self, market, market_book):
        return True

    def process_orders(self, market, orders):
        self.L.observe(market)

    def process_closed_market(self, market, market_book):
        self.L.observe(market, closing=True)

    def _place(self, market, sel, side, ot):
        tr = Trade(market.market_id, sel, 0, self)
        o = tr.create_order(side, ot)
        client = self.rnd.choice(self.clist) if len(self.clist) > 1 else None
        self.L.owner[tr.id] = client if client is not None else self.L.default
        if not market.place_order(o, client=client):
            del self.L.owner[tr.id]
            return None
        return o

    def process_market_book(self, market, book):
        self.L.observe(market)
        P = self.plans[market.market_id]
        t = P.index[book.publish_time_epoch]
        if book.status != "OPEN":
            return
        rnd = self.rnd
        up = exec_tick(P, t, PLACE_LAT)
        uc = exec_tick(P, t, CANCEL_LAT)
        ur = exec_tick(P, t, REPLACE_LAT)

        def all_open(lo, hi):
            return hi is not None and hi <= P.n - 1 and all(P.status[i] == "OPEN" for i in range(lo, hi + 1))

        can_place = up is not None and up <= P.n - 1
        can_cancel = uc is not None and all_open(t, max(uc, t + 2))
        can_replace = ur is not None and all_open(t, max(ur, t + 2))
        removed_now = {r.selection_id for r in book.runners if r.status == "REMOVED"}
        runners = {r.selection_id: r for r in book.runners}
        # a large resting PERSIST order on another runner shortly before a removal: partly filled before it, further fills after it
        if can_place and up not in P.removals and any(tr - 4 <= t <= tr - 1 for tr in P.removals) and rnd.random() < 0.5:
            others = [s for s in P.sels if s not in P.doomed and s not in removed_now]
            if others:
                sel = rnd.choice(others)
                atb, atl = runners[sel].ex.available_to_back, runners[sel].ex.available_to_lay
                if atb and atl:
                    side = rnd.choice(["BACK", "LAY"])
                    cands = [p for p in C if atb[0]["price"] < p < atl[0]["price"]] + [(atl if side == "BACK" else atb)[0]["price"]]
                    self._place(market, sel, side, LimitOrder(rnd.choice(cands), rnd.choice([20.0, 30.0, 40.0]), persistence_type="PERSIST"))
        for _ in range(rnd.randint(0, 3)):
            act = rnd.random()
            live = [o for o in market.blotter.strategy_orders(self) if o.status == OrderStatus.EXECUTABLE and o.size_remaining > 0
                    and not (o.selection_id in P.doomed)]
            if act < 0.62 or not live:
                if not can_place:
                    continue
                sel = rnd.choice(P.sels)
                if sel in removed_now and rnd.random() > 0.15:
                    continue  # now and then an order on a runner that is already removed (refused and voided by the exchange)
                doomed = sel in P.doomed and t <= P.doomed[sel]
                if up in P.removals and P.removals[up][0] != sel:
                    continue  # would be filled and reduced between two callbacks
                rb = runners[sel]
                atb, atl = rb.ex.available_to_back, rb.ex.available_to_lay
                if not atb or not atl:
                    continue
                bb, bl = atb[0]["price"], atl[0]["price"]
                between = [p for p in C if bb < p < bl]
                side = rnd.choice(["BACK", "LAY"])
                kind = rnd.random()
                # (on the runner that will be removed: PERSIST, or the MARKET_ON_CLOSE persistence of a LIMIT order - it is voided and completes like any other)
                persistence = rnd.choice(["PERSIST", "PERSIST", "MARKET_ON_CLOSE"]) if doomed else ("PERSIST" if rnd.random() < 0.75 else "LAPSE")
                if kind < 0.35:  # crosses the book: matched at once (possibly over several levels)
                    lv = atb if side == "BACK" else atl
                    price = lv[rnd.randint(0, min(2, len(lv) - 1))]["price"]
                    ot = LimitOrder(price, rnd.choice([2.0, 3.0, 5.0, 8.0, 10.0, 15.0]), persistence_type=persistence)
                elif kind < 0.78 or doomed:  # rests (in the queue of the other side, or alone between the best prices)
                    other = atl if side == "BACK" else atb
                    cands = between + [x["price"] for x in other[:2]]
                    ot = LimitOrder(rnd.choice(cands), rnd.choice([5.0, 10.0, 15.0, 20.0, 30.0]), persistence_type=persistence)
                else:  # fill-or-kill: at the best level, through it (sweeps by vwap), or not matchable at all
                    lv = atb if side == "BACK" else atl
                    cands = [x["price"] for x in lv[:3]] + [x["price"] for x in lv[1:3]] + between[:1]
                    size = rnd.choice([4.0, 8.0, 12.0, 20.0, 40.0])
                    ot = LimitOrder(rnd.choice(cands), size, persistence_type=persistence, time_in_force="FILL_OR_KILL",
                                    min_fill_size=rnd.choice([None, size, round(size / 2, 2), 2.0]))
                self._place(market, sel, side, ot)
            elif act < 0.74:
                if not can_cancel:
                    continue
                o = rnd.choice(live)
                red = rnd.choice([None, None, round(o.size_remaining / 2, 2)])
                market.cancel_order(o, size_reduction=red if red else None)
            else:
                if not can_replace:
                    continue
                other_client = [o for o in live if o.client is not self.L.default]
                o = rnd.choice(other_client) if other_client and rnd.random() < 0.75 else rnd.choice(live)
                rb = runners[o.selection_id]
                atb, atl = rb.ex.available_to_back, rb.ex.available_to_lay
                if not atb or not atl:
                    continue
                if rnd.random() < 0.6:  # to a price that crosses the book: the replacement is matched
                    lv = atb if o.side == "BACK" else atl
                    np_ = lv[rnd.randint(0, min(1, len(lv) - 1))]["price"]
                else:
                    other = atl if o.side == "BACK" else atb
                    np_ = rnd.choice([p for p in C if atb[0]["price"] < p < atl[0]["price"]] + [x["price"] for x in other[:2]])
                if np_ == o.order_type.price:
                    continue
                market.replace_order(o, np_)


class Capture(LoggingControl):
    NAME = "SETTLE"

    def __init__(self):
        super().__init__()
        self.cleared_markets = []
        self.cleared_orders_meta = []
        self.cleared_orders = []

    def _process_cleared_markets(self, event):
        for cm in event.event.orders:
            self.cleared_markets.append(cm)

    def _process_cleared_orders_meta(self, event):
        self.cleared_orders_meta.append(list(event.event))

    def _process_cleared_orders(self, event):
        self.cleared_orders.append(getattr(event.event, "market_id", None))


# ------------------------------------------------------------------------------------------------ checks at the close
def check_market(fw, P, L, cap, clist, fail, tag):
    market = fw.markets.markets.get(P.mid)
    if market is None:
        fail("C08", "%s: market %s is gone after the run" % (tag, P.mid))
        return
    removed = L.removed.get(P.mid, {})
    for t, (s, f) in P.removals.items():
        if removed.get(s) != f:
            fail("C09", "%s: the file removes runner %s with factor %s, the books delivered to the strategies showed %s" % (tag, s, f, removed.get(s)))
    n_winners = sum(1 for v in P.result.values() if v == "WINNER")
    recs = [r for r in L.recs.values() if r.mid == P.mid]
    in_blotter = {id(o) for o in market.blotter}
    expected = {}
    for rec in recs:
        o = rec.order
        so = o.simulated
        ctx = "%s %s order %s %s %s@%s%s on runner %s (%s)" % (tag, P.mid, o.id[-6:], o.side, o.order_type.size, o.order_type.price,
                                                              " FOK" if o.order_type.time_in_force == "FILL_OR_KILL" else "", rec.sel, P.result[rec.sel])
        if id(o) not in in_blotter:
            fail("C08", "%s: left the blotter" % ctx)
        STATS["orders"] += 1
        STATS["fok"] += o.order_type.time_in_force == "FILL_OR_KILL"
        STATS["fok_killed"] += o.order_type.time_in_force == "FILL_OR_KILL" and not rec.frags
        STATS["replaced"] += o.trade.orders[0] is not o
        if rec.sel in removed:
            STATS["voided"] += 1
            expected[id(o)] = (0.0, 0.0, 0)
            if abs(o.size_matched) > EPS or so.matched or abs(o.average_price_matched) > EPS:
                fail("C09", "%s: runner removed (factor %s) but matched %s @ %s fills %s" % (ctx, removed[rec.sel], o.size_matched, o.average_price_matched, [(f[1], f[2]) for f in so.matched]))
            if abs(o.size_remaining) > EPS:
                fail("C09", "%s: runner removed but %s remains (voided %s cancelled %s lapsed %s)" % (ctx, o.size_remaining, o.size_voided, o.size_cancelled, o.size_lapsed))
            if abs(o.profit) > EPS or abs(so.profit) > EPS:
                fail("C09", "%s: runner removed but profit %s" % (ctx, o.profit))
            if not o.complete or o.status != OrderStatus.EXECUTION_COMPLETE:
                fail("C09", "%s: runner removed but the order did not complete (status %s)" % (ctx, o.status and o.status.value))
            continue
        S = round(sum(f[2] for f in rec.frags), 2)
        vw = round(sum(f[1] * f[2] for f in rec.frags) / S, 2) if S > 0 else 0.0
        prop = "C09" if rec.reduced else "C08"
        STATS["matched"] += S > 0
        STATS["fragments"] += len(rec.frags)
        STATS["multi_fragment"] += len(rec.frags) > 1
        STATS["reduced"] += rec.reduced
        STATS["reduced_then_filled"] += rec.filled_after_reduction
        STATS["replaced_other_client_matched"] += o.trade.orders[0] is not o and S > 0 and rec.owner is not L.default
        got = [(f[1], f[2]) for f in so.matched]
        want = [(f[1], f[2]) for f in rec.frags]
        if len(got) != len(want) or any(abs(g[0] - w[0]) > 0.01 + EPS or abs(g[1] - w[1]) > 0.01 + EPS for g, w in zip(got, want)):
            fail("C09" if removed else "C08", "%s: fills %s, recorded (removals %s applied once to the fills made before them) %s" % (ctx, got, removed, want))
        if abs(o.size_matched - S) > 0.01 + EPS:
            fail(prop, "%s: size matched %s, recorded fragments sum to %s %s" % (ctx, o.size_matched, S, want))
        if abs(o.average_price_matched - vw) > 0.01 + EPS:
            fail(prop, "%s: average price matched %s, recorded fragments %s (removals %s) average %s" % (ctx, o.average_price_matched, want, removed, vw))
        if o.order_type.time_in_force == "FILL_OR_KILL" and abs(o.size_remaining) > EPS:
            fail("C08", "%s: fill-or-kill order rests with %s remaining" % (ctx, o.size_remaining))
        exp = round(settle(rec.frags, o.side, P.result[rec.sel], n_winners, P.k), 2)
        tol = 0.011 + (0.005 * S if P.result[rec.sel] == "WINNER" else 0.0)  # the engine settles on the 2 dp average price
        expected[id(o)] = (exp, tol, 1 if S > 0 else 0)
        if abs(o.profit - so.profit) > EPS:
            fail("C08", "%s: order.profit %s != simulated profit %s" % (ctx, o.profit, so.profit))
        if abs(so.profit - exp) > tol:
            fail(prop, "%s: profit %s, the exchange pays %s on the fills %s (%d winner(s), %d place(s))" % (ctx, so.profit, exp, want, n_winners, P.k))
        if so.matched:
            # a back and a lay with identical fills: exactly opposite profit
            tw = o.trade.create_order("LAY" if o.side == "BACK" else "BACK", LimitOrder(o.order_type.price, o.order_type.size))
            o.trade.orders.remove(tw)
            tw.simulated.matched = [list(f) for f in so.matched]
            tw.simulated.size_matched, tw.simulated.average_price_matched = so.size_matched, so.average_price_matched
            tw.runner_status, tw.market_type, tw.each_way_divisor = o.runner_status, o.market_type, o.each_way_divisor
            tw.number_of_dead_heat_winners = o.number_of_dead_heat_winners
            if tw.simulated.profit != -so.profit:
                fail("C08", "%s: profit %s, the same fills on the other side give %s (not the opposite)" % (ctx, so.profit, tw.simulated.profit))
    # every order of the strategies is known to the ledger
    for o in market.blotter:
        if id(o) not in L.recs:
            fail("C08", "%s: order %s in the blotter at the close was never seen in a callback" % (tag, o.id))
    # cleared orders report: once, every order exactly once
    metas = [m for m in cap.cleared_orders_meta if m and m[0].market_id == P.mid]
    if recs:
        if len(metas) != 1:
            fail("C08", "%s %s: %d cleared-orders reports for one close" % (tag, P.mid, len(metas)))
        elif sorted(id(o) for o in metas[0]) != sorted(id(r.order) for r in recs):
            fail("C08", "%s %s: the cleared-orders report lists %d orders, %d were placed" % (tag, P.mid, len(metas[0]), len(recs)))
    # market-level cleared summary per client
    cms = [cm for cm in cap.cleared_markets if cm.market_id == P.mid]
    if len(cms) != len(clist):
        fail("C08", "%s %s: %d cleared-market summaries for %d client(s)" % (tag, P.mid, len(cms), len(clist)))
        return
    for client, cm in zip(clist, cms):  # emitted in client order
        mine = [r for r in recs if r.owner is client]
        for r in mine:
            if r.order.client is not client:
                fail("C08", "%s %s: order %s (%s) was placed with client %s but is bound to client %s at the close" % (
                    tag, P.mid, r.order.id[-6:], "replacement" if r.order.trade.orders[0] is not r.order else "original", client.username, getattr(r.order.client, "username", None)))
        exp = round(sum(expected[id(r.order)][0] for r in mine if id(r.order) in expected), 2)
        tol = 0.011 + sum(expected[id(r.order)][1] for r in mine if id(r.order) in expected)
        engine_sum = round(sum(r.order.profit for r in mine), 2)
        bets = sum(expected[id(r.order)][2] for r in mine if id(r.order) in expected)
        who = "%s %s client %s (rate %s, %d orders)" % (tag, P.mid, client.username, client.commission_base, len(mine))
        if abs(cm.profit - engine_sum) > 0.01 * max(1, len(mine)) + EPS:
            fail("C08", "%s: cleared summary profit %s, its orders' profits sum to %s" % (who, cm.profit, engine_sum))
        if abs(cm.profit - exp) > tol:
            fail("C08", "%s: cleared summary profit %s, the exchange pays %s on its orders' fills" % (who, cm.profit, exp))
        if not P.abandoned and cm.bet_count != bets:
            fail("C08", "%s: cleared summary bet count %s, %d of its orders have fills" % (who, cm.bet_count, bets))
        if cm.profit <= 0 and abs(cm.commission) > EPS:
            fail("C08", "%s: commission %s charged on a net result of %s" % (who, cm.commission, cm.profit))
        if abs(cm.commission - round(max(cm.profit * client.commission_base, 0), 2)) > 0.005 + EPS:
            fail("C08", "%s: commission %s on a net result of %s" % (who, cm.commission, cm.profit))
        if exp < -tol and abs(cm.commission) > EPS:
            fail("C08", "%s: commission %s charged, the client's own orders lose %s" % (who, cm.commission, exp))
        if exp > tol and abs(cm.commission - exp * client.commission_base) > tol * client.commission_base + 0.011:
            fail("C08", "%s: commission %s, the client's own orders win %s" % (who, cm.commission, exp))


def run_scenario(rnd, it, tmp, failures):
    two_markets = rnd.random() < 0.2
    two_clients = rnd.random() < 0.6
    two_strategies = rnd.random() < 0.4
    plans, paths = {}, []
    for k in range(2 if two_markets else 1):
        mid = "1.%09d" % (300000000 + it * 10 + k)
        lines, P = build_market(rnd, mid, 1000 * (k + 1) + 101, "3%07d" % it, T0 + rnd.choice([0, 0, 250, 3000]) + 7 * k)
        p = os.path.join(tmp, mid)
        with open(p, "w") as f:
            f.write("\n".join(lines) + "\n")
        plans[mid] = P
        paths.append(p)
    if two_markets and len({pt for P in plans.values() for pt in P.pts}) != sum(len(P.pts) for P in plans.values()):
        STATS["skipped"] += 1  # identical publish times in the two files: order of delivery is a C14 matter
        return None
    seeds = [rnd.randint(1, 10**6), rnd.randint(1, 10**6)]
    if two_clients:
        clist = [clients.SimulatedClient(username="alpha", commission_base=0.05), clients.SimulatedClient(username="beta", commission_base=0.02)]
    else:
        clist = [clients.SimulatedClient(username="solo", commission_base=0.05)]
    fw = FlumineSimulation(client=clist[0])
    for c in clist[1:]:
        fw.add_client(c)
    L = Ledger(failures, clist[0])
    mf = {"markets": paths}
    if two_markets:
        mf["event_processing"] = True
    for i in range(2 if two_strategies else 1):
        fw.add_strategy(Scripted(seeds[i], plans, L, clist, market_filter=dict(mf), name="S%d" % i, max_order_exposure=1e6, max_selection_exposure=1e6,
                                 max_live_trade_count=1000, max_trade_count=100000))
    cap = Capture()
    fw.add_logging_control(cap)
    fw.run()
    if L.unobservable:
        STATS["skipped"] += 1
        return None
    tag = "scenario %d (seed %d)" % (it, a.seed)

    def fail(prop, msg):
        if len(failures.setdefault(prop, [])) < 3:
            failures[prop].append(msg)

    for P in plans.values():
        check_market(fw, P, L, cap, clist, fail, tag)
        STATS["removal_runs"] += bool(P.removals)
        STATS["dead_heats"] += P.dead_heat
        STATS["place_markets"] += P.mtype == "PLACE"
        STATS["abandoned"] += P.abandoned
    STATS["two_clients"] += two_clients
    STATS["two_markets"] += two_markets
    n_orders = len(L.recs)
    return (tuple((P.n, P.mtype, tuple(sorted(P.removals.items())), tuple(sorted(P.result.items()))) for P in plans.values()), n_orders,
            sum(1 for r in L.recs.values() if r.frags), two_clients, two_strategies)


def main():
    rnd = random.Random(a.seed)
    failures = {}
    evaluations = 0
    distinct = set()
    tmp = tempfile.mkdtemp(prefix="simsettle_")
    t_start = time.time()
    try:
        for it in range(a.n):
            sub = random.Random(rnd.randint(0, 2**62))  # one generator per scenario: scenario K can be re-run alone
            if a.only is not None and it != a.only:
                continue
            try:
                sig = run_scenario(sub, it, tmp, failures)
            except Exception:
                import traceback
                failures.setdefault("CRASH", []).append("scenario %d (seed %d): " % (it, a.seed) + traceback.format_exc()[-900:])
                break
            if sig is None:
                continue
            evaluations += 1
            distinct.add(sig)
            if sum(len(v) for v in failures.values()) >= 6:
                break
    finally:
        shutil.rmtree(tmp, ignore_errors=True)
    print(json.dumps(dict(evaluations=evaluations, distinct=len(distinct), seconds=round(time.time() - t_start, 1), stats=STATS,
                          failures={k: v[:3] for k, v in failures.items()})))


main()
