"""Bounded stand-in (never counted as proved): run-time checking of a sidecar contract on the REAL function.

Used by the driver for a function the prover could not decide (out of reach / unknown): random pre-states are
drawn over the same observables the prover names (parameters and the fields reachable from them), real objects are
built, inputs that violate the contract's `requires` are discarded, the real function is called and every
`ensures` / `raises` clause is evaluated natively.  A failing input is a concrete, replayed violation.
stdin: {"function", "requires": [...], "ensures": [[label, text]...], "raises": [...], "observables": [[path, sort]...],
        "atoms": {...}, "atom_pool": [...], "num_pool": [...], "n": int, "seed": int}
stdout last line: {"evaluations", "accepted", "distinct", "failures": [...]}
"""
import ast
import copy
import importlib
import json
import os
import random
import sys
import traceback
from fractions import Fraction

HERE = os.path.dirname(os.path.abspath(__file__))
sys.path.insert(0, HERE)
import replay as RP  # noqa

BASE_NUMS = ["0", "1/100", "1/2", "1", "101/100", "3/2", "2", "201/100", "5/2", "3", "4", "5", "10", "20", "100", "1000", "1001", "-1", "-1/2", "1/1000", "2501/1000"]


def sample_pre(spec, rnd):
    pre = {}
    nums = [Fraction(x) for x in BASE_NUMS + spec.get("num_pool", [])]
    atoms_by_code = spec["atoms"]
    pool = spec.get("atom_pool") or list(atoms_by_code)
    refs = {}
    reals = []
    for ob in spec["observables"]:
        path, sort = ob[0], ob[1]
        if sort.endswith("=const"):
            pre[path] = dict(sort=sort[:-6], value=ob[2])
            continue
        if path.endswith("?none"):
            pre[path] = dict(sort="Bool", value="True" if rnd.random() < 0.2 else "False")
        elif path.endswith("@ref"):
            cls = sort[4:]
            k = refs.setdefault(cls, 0)
            # a small number of distinct objects per class: aliasing is explored too
            rid = rnd.choice([1, 1, 2, 3])
            pre[path] = dict(sort=sort, value=str(rid if cls not in ("Fragment", "PriceSize") else 10 + len(pre)))
        elif path.endswith("@len"):
            pre[path] = dict(sort="Int", value=str(rnd.choice([0, 1, 2, 3])))
        elif sort == "Bool":
            pre[path] = dict(sort=sort, value=rnd.choice(["True", "False"]))
        elif sort == "Atom":
            pre[path] = dict(sort=sort, value=str(rnd.choice(pool)))
        elif sort == "Int":
            pre[path] = dict(sort=sort, value=str(rnd.choice([0, 1, 2, 3, 4, 5, -1, 10])))
        else:
            v = rnd.choice(nums)
            if reals and rnd.random() < 0.3:
                a, b = rnd.choice(reals), rnd.choice(nums)
                v = a + rnd.randint(-3, 3) * b
            reals.append(v)
            pre[path] = dict(sort="Real", value=str(v))
    return pre


def main():
    import argparse

    ap = argparse.ArgumentParser()
    ap.add_argument("--repo", default="/repo")
    a = ap.parse_args()
    spec = json.load(sys.stdin)
    sys.path.insert(0, a.repo)
    os.chdir(a.repo)
    import flumine

    assert os.path.abspath(flumine.__file__).startswith(os.path.abspath(a.repo)), flumine.__file__
    ns = RP.load_sidecars()
    rnd = random.Random(spec.get("seed", 0))
    fn = spec["function"]
    path, name = fn.split("::")
    mod = importlib.import_module(path[:-3].replace("/", "."))
    evaluations = accepted = 0
    seen = set()
    failures = []
    params = sorted({ob[0].split(".")[0].split("[")[0].split("@")[0].split("?")[0] for ob in spec["observables"]})
    for it in range(spec.get("n", 300)):
        pre = sample_pre(spec, rnd)
        rec = dict(pre_state=pre, atoms=spec["atoms"])
        b = RP.Builder(rec, ns)
        try:
            args = {p: b.build(p) for p in params}
        except Exception:
            continue
        env = dict(ns)
        env.update(args)
        evaluations += 1
        try:
            import native_dsl
            if not all(eval(compile(native_dsl.tolerant(ast.parse(r, mode="eval")), "<req>", "eval"), env) for r in spec["requires"]):
                continue
        except Exception:
            continue
        accepted += 1
        key = json.dumps(pre, sort_keys=True)
        seen.add(hash(key))
        # old() values
        clauses = []
        try:
            for label, text in spec["ensures"]:
                rew = RP.OldRewriter()
                import native_dsl
                tree = native_dsl.tolerant(rew.visit(ast.parse(text, mode="eval")))
                olds = {}
                for i, o in enumerate(rew.olds):
                    olds["__old_%d" % i] = copy.deepcopy(eval(compile(ast.Expression(o), "<old>", "eval"), env))
                # rename per clause to avoid clashes
                clauses.append((label, compile(ast.fix_missing_locations(tree), "<clause>", "eval"), olds))
        except Exception:
            continue
        when_pre = []
        for r in spec.get("raises", []):
            try:
                when_pre.append(bool(eval(compile(native_dsl.tolerant(ast.parse(r["when"], mode="eval")), "<when>", "eval"), env)) if r.get("when") else True)
            except Exception:
                when_pre.append(None)
        exc = None
        result = None
        try:
            if "." in name:
                cn, mn = name.split(".")
                cls = getattr(mod, cn)
                member = cls.__dict__.get(mn)
                if isinstance(member, property):
                    result = member.fget(args["self"])
                elif isinstance(member, staticmethod):
                    result = member.__func__(**{k: v for k, v in args.items() if k != "self"})
                else:
                    result = getattr(cls, mn)(**args)
            else:
                result = getattr(mod, name)(**args)
        except Exception as e:  # noqa
            exc = e
        if exc is not None:
            allowed = False
            for r, w in zip(spec.get("raises", []), when_pre):
                if type(exc).__name__ == r["exc"] or any(c.__name__ == r["exc"] for c in type(exc).__mro__):
                    allowed = True
                    if w is False:
                        failures.append(dict(kind="raised-outside-when", clause=r["when"], exception=repr(exc), pre_state=pre))
            if not allowed and spec.get("strict_exceptions"):
                failures.append(dict(kind="unexpected-exception", exception=repr(exc), pre_state=pre))
            if len(failures) >= 3:
                break
            continue
        for r, w in zip(spec.get("raises", []), when_pre):
            if r.get("iff") and r.get("when") and w is True:
                failures.append(dict(kind="no-raise-inside-when", clause=r["when"], pre_state=pre, result=repr(result)[:200]))
        env["result"] = result
        for label, code, olds in clauses:
            env.update(olds)
            try:
                if not eval(code, env):
                    failures.append(dict(kind="ensures", label=label, pre_state=pre, result=repr(result)[:200], args={k: repr(v)[:200] for k, v in args.items()}))
            except Exception as e:
                pass
        if len(failures) >= 3:
            break
    print(json.dumps(dict(evaluations=evaluations, accepted=accepted, distinct=len(seen), failures=failures[:3]), default=str))


if __name__ == "__main__":
    try:
        main()
    except Exception:
        print(json.dumps(dict(evaluations=0, accepted=0, distinct=0, failures=[], error=traceback.format_exc()[-1500:])))
