#!/bin/sh
# maintenance: remove every scratch worktree of /repo made by the seeded-change tooling (never needed by a registered check)
for d in $(git -C /repo worktree list --porcelain | awk '/^worktree /{print $2}' | grep -v '^/repo$'); do
  git -C /repo worktree remove --force "$d" 2>/dev/null || rm -rf "$d"
done
git -C /repo worktree prune
rm -rf /tmp/seed /tmp/seed2 /tmp/seed3 /tmp/seedconf /tmp/fixwt /tmp/x /tmp/mutB2 /tmp/seed*_scratch 2>/dev/null
