"""maintenance: confirm each seeded change in its scratch worktree and copy the confirmed ones to /verif/seeded/<id>/.
(clean tree: demo exits 0; patched: the pinned suite still has exactly the 5 baseline failures and the demo exits 1)"""
import json, os, shutil, subprocess, sys, re
PY = "/venv/bin/python"
BASE_FAIL = 5
props = {json.loads(l)["id"]: json.loads(l) for l in open("/verif/properties.jsonl")}
only = sys.argv[1:]
def sh(cmd, cwd, timeout=1200):
    p = subprocess.run(cmd, cwd=cwd, shell=True, capture_output=True, text=True, timeout=timeout)
    return p.returncode, (p.stdout + p.stderr)
for pid in sorted(props):
    if only and pid not in only: continue
    wt = "%s/%s" % (os.environ.get("SEED_ROOT", "/tmp/seedconf"), pid)
    off = int(os.environ.get("SEED_OFFSET", "0"))  # round 2: SEED_ROOT=/tmp/seed2 SEED_OFFSET=2 -> m3, m4
    for n in (1, 2):
        patch = "%s/_seed/patch%d.diff" % (wt, n); demo = "%s/_seed/demo%d.py" % (wt, n)
        if not (os.path.exists(patch) and os.path.exists(demo)): continue
        sid = "%s_m%d" % (pid, n + off)
        sh("git checkout -q -- flumine", wt)
        rc0, o0 = sh("%s _seed/demo%d.py" % (PY, n), wt)
        rca, oa = sh("git apply _seed/patch%d.diff" % n, wt)
        rct, ot = sh("%s -m pytest -q -p no:cacheprovider --timeout=900 tests 2>&1 | tail -3" % PY, wt)
        m = re.search(r"(\d+) failed, (\d+) passed", ot)
        rc1, o1 = sh("%s _seed/demo%d.py" % (PY, n), wt)
        sh("git checkout -q -- flumine", wt)
        ok = rc0 == 0 and rca == 0 and m and int(m.group(1)) == BASE_FAIL and int(m.group(2)) == 976 and rc1 == 1
        print(sid, "OK" if ok else "REJECTED", "clean-demo rc=%s patched-demo rc=%s tests=%s" % (rc0, rc1, m.group(0) if m else ot[-100:]), flush=True)
        if not ok: continue
        d = "/verif/seeded/%s" % sid
        os.makedirs(d, exist_ok=True)
        shutil.copy(patch, d + "/patch.diff"); shutil.copy(demo, d + "/demo.py")
        notes = open("%s/_seed/NOTES.md" % wt).read() if os.path.exists("%s/_seed/NOTES.md" % wt) else ""
        open(d + "/NOTES_from_author.md", "w").write(notes)
        json.dump(dict(id=sid, property=pid, property_title=props[pid]["title"], source="independent sub-agent given only the property text and a scratch worktree",
                       files_touched=sorted(set(re.findall(r"^\+\+\+ b/(\S+)", open(patch).read(), re.M))),
                       needs_to_manifest="see NOTES_from_author.md (change %d)" % n,
                       confirmed=dict(clean_demo_exit=rc0, patched_demo_exit=rc1, patched_suite=m.group(0), patched_demo_last_line=o1.strip().splitlines()[-1][:300] if o1.strip() else ""),
                       ran=["git checkout -- flumine", "%s _seed/demo%d.py  (expect 0)" % (PY, n), "git apply patch.diff", "%s -m pytest -q -p no:cacheprovider --timeout=900 tests  (expect 5 failed, 976 passed)" % PY, "%s _seed/demo%d.py  (expect 1)" % (PY, n), "git checkout -- flumine"]),
                  open(d + "/meta.json", "w"), indent=1)
