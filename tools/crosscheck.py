"""maintenance / thorough tier: run-time check of every contract of a property on the real function with random pre-states
(the same machinery as the bounded stand-in). A failure on the unchanged tree = the contract (as read natively) and the real
code disagree although the prover discharged it: an engine or builder defect to investigate."""
import sys, os, json; sys.path.insert(0, os.path.dirname(os.path.dirname(os.path.abspath(__file__))))
from pyvc.repo import Repo; from pyvc.engine import Engine; from pyvc.contracts import Spec, verify_function
from pyvc import driver
prop = sys.argv[1]; n = int(sys.argv[2]) if len(sys.argv) > 2 else 300
root = os.environ.get("REPO", "/repo")
from fractions import Fraction
g = driver.ground_facts(root); gn = {k: [Fraction(x) for x in g[k]] for k in ("PRICES", "BETDAQ_PRICES", "PRICES_FLOAT", "BETDAQ_PRICES_FLOAT") if k in g}
repo = Repo(root); spec = Spec(); spec.load_dir(os.path.join(driver.VERIF, "contracts"), gn); eng = Engine(repo, spec)
for q, c in sorted(spec.contracts.items()):
    if prop not in c.tags or c.kind != "repo" or c.trusted: continue
    r = verify_function(eng, c, max_paths=1)  if False else None
    # observables only need the entry state: run one path
    from pyvc import contracts as C
    try:
        r = C.verify_function(eng, c, max_paths=3000)
    except Exception as e:
        print(q, "ERR", e); continue
    s = driver.run_standin(c, r, repo, root, 0, n)
    print(q.split("::")[1], "evals", s.get("evaluations"), "accepted", s.get("accepted"), "failures", len(s.get("failures", [])), (s.get("error") or "")[:200])
    for f in s.get("failures", [])[:1]:
        print("   ", json.dumps({k: v for k, v in f.items() if k != "pre_state"}, default=str)[:600])
