import json, os, shutil, subprocess, sys
V = os.path.dirname(os.path.dirname(os.path.abspath(__file__)))
groups = json.load(open(os.path.join(V, "tools", "groups.json")))
args = sys.argv[1:]
prop = next((a for a in args if not a.startswith("-")), None)
g = groups.get(prop, "main")
if "--tier" not in args and os.environ.get("VERIF_TIER"):
    args += ["--tier", os.environ["VERIF_TIER"]]
if g == "main" or "--replay" in args:
    os.chdir(V)
    sys.path.insert(0, V)
    from pyvc.driver import main
    sys.argv = ["check"] + args
    main()
else:
    gd = os.path.join(V, "groups", g)
    p = subprocess.run(["python3-vt", "-c", "import sys; sys.path.insert(0,'.'); from pyvc.driver import main; main()"] + args, cwd=gd)
    ev = os.path.join(gd, "evidence", "%s.json" % prop)
    if "--no-evidence" not in args and "--replay" not in args and os.path.exists(ev):
        e = json.load(open(ev))
        cov = e.setdefault("coverage", {})
        cov["checker_cmd"] = "cd /verif && ./check %s --tier %s   (engine variant /verif/groups/%s/pyvc)" % (prop, e.get("tier", "quick"), g)
        cov.setdefault("trusted_base", []).append("engine variant: /verif/groups/%s/pyvc (fork of /verif/pyvc in which this group of contracts was developed; see DESIGN 10.5 and groups/%s/NOTES_%s.md)" % (g, g, g))
        os.makedirs(os.path.join(V, "evidence"), exist_ok=True)
        json.dump(e, open(os.path.join(V, "evidence", "%s.json" % prop), "w"), indent=1)
    sys.exit(p.returncode)
