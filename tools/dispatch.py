"""./check: dispatch to the engine variant that serves the property, then run the property's bounded native post-checks,
merge their outcome into /verif/evidence/<id>.json and into the exit code."""
import json, os, re, subprocess, sys, time
V = os.path.dirname(os.path.dirname(os.path.abspath(__file__)))
groups = json.load(open(os.path.join(V, "tools", "groups.json")))
posts = json.load(open(os.path.join(V, "tools", "post_checks.json")))
args = sys.argv[1:]
prop = next((a for a in args if not a.startswith("-")), None)
g = groups.get(prop, "main")
if "--tier" not in args and os.environ.get("VERIF_TIER"):
    args += ["--tier", os.environ["VERIF_TIER"]]
tier = args[args.index("--tier") + 1] if "--tier" in args else "quick"
repo = args[args.index("--repo") + 1] if "--repo" in args else "/repo"
seed = int(os.environ.get("VERIF_SEED", "0"))
t0 = time.time()
if "--replay" in args:
    rpath = args[args.index("--replay") + 1]
    try:
        rec = json.load(open(rpath))
    except Exception:
        rec = {}
    if rec.get("kind") == "bounded-standin" and rec.get("script"):
        # a failure found by a bounded native post-check: run the same script with the recorded bound and seed on the tree given now
        q = subprocess.run(["/venv/bin/python", os.path.join(V, rec["script"]), "--repo", repo, "--n", str(rec.get("n", 10)), "--seed", str(rec.get("seed", 0))], capture_output=True, text=True, timeout=3000)
        lines = [l for l in q.stdout.strip().splitlines() if l.startswith("{")]
        r = json.loads(lines[-1]) if lines else dict(error=(q.stderr or q.stdout)[-400:])
        fails = r.get("failures", [])
        if isinstance(fails, dict):
            fails = fails.get(rec.get("key"), []) + fails.get("CRASH", [])
        print(json.dumps(dict(rerun=rec.get("rerun"), failures=fails[:3], error=r.get("error")), indent=1))
        if fails:
            print("VIOLATION property=%s replay=%s" % (prop, rpath))
            sys.exit(1)
        sys.exit(0)
    gd = V
    cmd = ["python3-vt", "-c", "import sys; sys.path.insert(0,'.'); from pyvc.driver import main; main()"] + args
    sys.exit(subprocess.run(cmd, cwd=V).returncode)
variants = g if isinstance(g, list) else [g]
stages_cfg = json.load(open(os.path.join(V, "tools", "stages.json")))
rcs = []
evs = []
import shutil, signal, tempfile
tmpd = tempfile.mkdtemp(prefix="check_ev_", dir=os.path.join(V, "evidence")) if os.path.isdir(os.path.join(V, "evidence")) else tempfile.mkdtemp()
for gv in variants:
    gd = V if gv == "main" else os.path.join(V, "groups", gv)
    # a property whose run is dominated by one function is checked in stages: everything else first (a violation there is
    # reported without waiting for the slow function), then that function alone
    stages = [dict()]
    slow = stages_cfg.get(prop)
    if slow and "--only" not in args:
        stages = [dict(env={"PYVC_SKIP": slow}), dict(extra=["--only", slow])]
    for k, stg in enumerate(stages):
        budget = int(os.environ.get("CHECK_BUDGET_S", "2700" if tier == "quick" else "21600"))
        env = dict(os.environ, **stg.get("env", {}))
        proc = subprocess.Popen(["python3-vt", "-c", "import sys; sys.path.insert(0,'.'); from pyvc.driver import main; main()"] + args + stg.get("extra", []), cwd=gd, start_new_session=True, env=env)
        try:
            proc.wait(timeout=budget)
            rcs.append(proc.returncode)
        except subprocess.TimeoutExpired:
            os.killpg(proc.pid, signal.SIGKILL)  # the prover and its solver workers
            proc.wait()
            print("UNDECIDED property=%s time budget of %d s exhausted in engine variant %s (no verdict from the prover)" % (prop, budget, gv), flush=True)
            rcs.append(2)
        src = os.path.join(gd, "evidence", "%s.json" % prop)
        dst = os.path.join(tmpd, "%s_%s_%d.json" % (prop, gv, k))
        if os.path.exists(src) and "--no-evidence" not in args:
            shutil.copy(src, dst)
        evs.append((gv, dst))
        if rcs[-1] == 1 and len(stages) > 1 and k == 0:
            break  # violation already found: do not spend the slow stage
# 1 (violation) dominates, then 3 (engine failure), then 2 (undecided)
rc = 1 if 1 in rcs else (3 if 3 in rcs else (2 if 2 in rcs else 0))
g = variants[0]
gd = V if g == "main" else os.path.join(V, "groups", g)
# ---- bounded native post-checks (skipped for partial runs)
bounded = []
violations = []
if "--only" not in args:
    for pc in posts.get(prop, []):
        n = pc[tier if tier in pc else "quick"]
        try:
            q = subprocess.run(["/venv/bin/python", os.path.join(V, pc["script"]), "--repo", repo, "--n", str(n), "--seed", str(seed)], capture_output=True, text=True, timeout=3000)
            lines = [l for l in q.stdout.strip().splitlines() if l.startswith("{")]
            r = json.loads(lines[-1]) if lines else dict(error=(q.stderr or q.stdout)[-400:])
        except Exception as e:
            r = dict(error=repr(e))
        fails = r.get("failures", [])
        if isinstance(fails, dict):
            crash = fails.get("CRASH", [])
            fails = fails.get(pc["key"], []) + crash
        bounded.append(dict(script=pc["script"], evaluations=r.get("evaluations"), distinct=r.get("distinct"), failures=len(fails), stats=r.get("stats"), error=r.get("error"),
                            bound="%s random cases, seed %d" % (n, seed)))
        if fails:
            os.makedirs(os.path.join(V, "replays", prop), exist_ok=True)
            rp = os.path.join(V, "replays", prop, "bounded_%s.json" % os.path.basename(pc["script"])[:-3])
            json.dump(dict(property=prop, obligation="bounded-standin:%s" % pc["script"], kind="bounded-standin", script=pc["script"], key=pc.get("key"), n=n, seed=seed, failing_input=fails[:3], native=dict(confirmed=True),
                           rerun="/venv/bin/python %s --repo %s --n %s --seed %s" % (os.path.join(V, pc["script"]), repo, n, seed)), open(rp, "w"), indent=1, default=str)
            violations.append("VIOLATION property=%s replay=%s" % (prop, rp))
for v in violations:
    print(v)
if violations:  # a concrete failing run found by a bounded post-check is a violation whatever the prover variants said (undecided, out of reach)
    rc = 1
# ---- evidence (several variants: coverage merged, every variant named)
if "--no-evidence" not in args and all(os.path.exists(f) for _, f in evs):
    e = json.load(open(evs[0][1]))
    cov = e.setdefault("coverage", {})
    for gv, f in evs[1:]:
        e2 = json.load(open(f))
        c2 = e2.get("coverage", {})
        for k in ("obligations", "discharged", "obligation_instances"):
            if isinstance(c2.get(k), int):
                cov[k] = int(cov.get(k, 0)) + c2[k]
        for k in ("functions_under_contract", "samples", "trusted_base", "inlined", "contracts_used_at_call_sites", "out_of_reach", "undecided", "failed", "known_findings_confirmed"):
            if isinstance(c2.get(k), list):
                cov[k] = list(cov.get(k, [])) + [x for x in c2[k] if x not in cov.get(k, [])]
        e["assumptions"] = list(e.get("assumptions", [])) + [x for x in e2.get("assumptions", []) if x not in e.get("assumptions", [])]
        e["violations"] = int(e.get("violations", 0)) + int(e2.get("violations", 0))
        if e2.get("level") != "proof":
            e["level"] = e2.get("level", e["level"])
    named = list(dict.fromkeys(gv for gv, _ in evs if gv != "main"))
    if named:
        cov["checker_cmd"] = "cd /verif && ./check %s --tier %s   (engine variant%s %s)" % (prop, e.get("tier", tier), "s" if len(named) > 1 else "", ", ".join("/verif/groups/%s/pyvc" % x for x in named))
        for x in named:
            cov.setdefault("trusted_base", []).append("engine variant: /verif/groups/%s/pyvc (fork of /verif/pyvc in which this group of contracts was developed; DESIGN 10.5, groups/%s/NOTES_%s.md)" % (x, x, x))
    if bounded:
        cov["bounded_native_post_checks"] = bounded
        e.setdefault("assumptions", []).append("BOUNDED (not proved): native scenario / unit stand-ins on the real code: " + "; ".join("%s: %s cases" % (b["script"], b["evaluations"]) for b in bounded))
    e["violations"] = int(e.get("violations", 0)) + len(violations)
    e["wall_s"] = round(time.time() - t0, 2)
    os.makedirs(os.path.join(V, "evidence"), exist_ok=True)
    json.dump(e, open(os.path.join(V, "evidence", "%s.json" % prop), "w"), indent=1)
shutil.rmtree(tmpd, ignore_errors=True)
sys.exit(rc)
