"""./check: dispatch to the engine variant that serves the property, then run the property's bounded native post-checks,
merge their outcome into /verif/evidence/<id>.json and into the exit code."""
import json, os, re, subprocess, sys, time
V = os.path.dirname(os.path.dirname(os.path.abspath(__file__)))
groups = json.load(open(os.path.join(V, "tools", "groups.json")))
posts = json.load(open(os.path.join(V, "tools", "post_checks.json")))
args = sys.argv[1:]
prop = next((a for a in args if not a.startswith("-")), None)
g = groups.get(prop, "main")
if "--tier" not in args and os.environ.get("VERIF_TIER"):
    args += ["--tier", os.environ["VERIF_TIER"]]
tier = args[args.index("--tier") + 1] if "--tier" in args else "quick"
repo = args[args.index("--repo") + 1] if "--repo" in args else "/repo"
seed = int(os.environ.get("VERIF_SEED", "0"))
t0 = time.time()
if "--replay" in args:
    gd = V
    cmd = ["python3-vt", "-c", "import sys; sys.path.insert(0,'.'); from pyvc.driver import main; main()"] + args
    sys.exit(subprocess.run(cmd, cwd=V).returncode)
gd = V if g == "main" else os.path.join(V, "groups", g)
p = subprocess.run(["python3-vt", "-c", "import sys; sys.path.insert(0,'.'); from pyvc.driver import main; main()"] + args, cwd=gd)
rc = p.returncode
# ---- bounded native post-checks (skipped for partial runs)
bounded = []
violations = []
if "--only" not in args:
    for pc in posts.get(prop, []):
        n = pc[tier if tier in pc else "quick"]
        try:
            q = subprocess.run(["/venv/bin/python", os.path.join(V, pc["script"]), "--repo", repo, "--n", str(n), "--seed", str(seed)], capture_output=True, text=True, timeout=3000)
            lines = [l for l in q.stdout.strip().splitlines() if l.startswith("{")]
            r = json.loads(lines[-1]) if lines else dict(error=(q.stderr or q.stdout)[-400:])
        except Exception as e:
            r = dict(error=repr(e))
        fails = r.get("failures", [])
        if isinstance(fails, dict):
            crash = fails.get("CRASH", [])
            fails = fails.get(pc["key"], []) + crash
        bounded.append(dict(script=pc["script"], evaluations=r.get("evaluations"), distinct=r.get("distinct"), failures=len(fails), stats=r.get("stats"), error=r.get("error"),
                            bound="%s random cases, seed %d" % (n, seed)))
        if fails:
            os.makedirs(os.path.join(V, "replays", prop), exist_ok=True)
            rp = os.path.join(V, "replays", prop, "bounded_%s.json" % os.path.basename(pc["script"])[:-3])
            json.dump(dict(property=prop, obligation="bounded-standin:%s" % pc["script"], kind="bounded-standin", failing_input=fails[:3], native=dict(confirmed=True),
                           rerun="/venv/bin/python %s --repo %s --n %s --seed %s" % (os.path.join(V, pc["script"]), repo, n, seed)), open(rp, "w"), indent=1, default=str)
            violations.append("VIOLATION property=%s replay=%s" % (prop, rp))
for v in violations:
    print(v)
if violations and rc in (0, 2):
    rc = 1
# ---- evidence
ev_src = os.path.join(gd, "evidence", "%s.json" % prop)
if "--no-evidence" not in args and os.path.exists(ev_src):
    e = json.load(open(ev_src))
    cov = e.setdefault("coverage", {})
    if g != "main":
        cov["checker_cmd"] = "cd /verif && ./check %s --tier %s   (engine variant /verif/groups/%s/pyvc)" % (prop, e.get("tier", tier), g)
        cov.setdefault("trusted_base", []).append("engine variant: /verif/groups/%s/pyvc (fork of /verif/pyvc in which this group of contracts was developed; DESIGN 10.5, groups/%s/NOTES_%s.md)" % (g, g, g))
    if bounded:
        cov["bounded_native_post_checks"] = bounded
        e.setdefault("assumptions", []).append("BOUNDED (not proved): native scenario / unit stand-ins on the real code: " + "; ".join("%s: %s cases" % (b["script"], b["evaluations"]) for b in bounded))
    e["violations"] = int(e.get("violations", 0)) + len(violations)
    e["wall_s"] = round(time.time() - t0, 2)
    os.makedirs(os.path.join(V, "evidence"), exist_ok=True)
    json.dump(e, open(os.path.join(V, "evidence", "%s.json" % prop), "w"), indent=1)
sys.exit(rc)
