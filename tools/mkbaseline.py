"""maintenance (never run by the registered checks): record, per claimed property, the names of the obligations that are
discharged on the unchanged tree.  A later run that no longer generates one of them reports UNDECIDED (exit 2)."""
import json, os, subprocess, sys
V = os.path.dirname(os.path.dirname(os.path.abspath(__file__)))
m = json.load(open(os.path.join(V, "MANIFEST.json")))
ids = sys.argv[1:] or [c["property_id"] for c in m["checks"]]
for pid in ids:
    env = dict(os.environ, PYVC_RECORD_BASELINE="1")
    p = subprocess.run(["./check", pid], cwd=V, env=env, capture_output=True, text=True)
    print(pid, p.returncode, p.stdout.strip().splitlines()[-1] if p.stdout.strip() else p.stderr[-200:])
