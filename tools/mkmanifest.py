"""maintenance: regenerate MANIFEST.json from tools/claims.json (claimed properties) - never run by the checks"""
import json, os
V = os.path.dirname(os.path.dirname(os.path.abspath(__file__)))
props = [json.loads(l) for l in open(os.path.join(V, "properties.jsonl"))]
claims = json.load(open(os.path.join(V, "tools", "claims.json")))
groups = json.load(open(os.path.join(V, "tools", "groups.json")))
posts = json.load(open(os.path.join(V, "tools", "post_checks.json")))


def variants(pid):
    g = groups.get(pid, "main")
    return g if isinstance(g, list) else [g]


def ename(g):
    return "pyvc" if g == "main" else "pyvc-%s" % g


checks = []
na = []
for p in props:
    c = claims.get(p["id"])
    if not c or not c.get("claimed"):
        na.append(dict(property_id=p["id"], reason=(c or {}).get("reason", "contracts not completed in this round (the technique applies; see DESIGN section 5) - not claimed rather than claimed at a level it did not reach")))
        continue
    checks.append(dict(
        property_id=p["id"],
        quick_cmd="./check %s --tier quick" % p["id"],
        thorough_cmd="./check %s --tier thorough" % p["id"],
        evidence_file="/verif/evidence/%s.json" % p["id"],
        replay_cmd_template="./check %s --replay {path}" % p["id"],
        engine="+".join(ename(g) for g in variants(p["id"])),
        level_claimed=dict(category="proof", text=c["text"], design_ref="DESIGN.md section 5, %s" % p["id"]),
        level_note=c["note"] + "; checked by engine variant(s) " + " + ".join(ename(g) for g in variants(p["id"])) + " (every one must pass; tools/groups.json, DESIGN 10.5)" + ("; BOUNDED native post-checks on the real code (never counted as proved): " + ", ".join(sorted(set(x["script"] for x in posts[p["id"]]))) if p["id"] in posts else ""),
        technique="contract-based deductive verification: sidecar contracts on the real functions, VCs generated from the /repo AST (pyvc) and discharged by z3/cvc5",
    ))
m = dict(
    version=1,
    setup_cmd="python3-vt -m compileall -q pyvc && python3-vt -c \"import z3; print('z3', z3.get_version_string())\"",
    hooks=dict(guard="FLUMINE_VERIF", enable="no hooks: contracts are sidecar files under /verif/contracts keyed by qualified function name; nothing in /repo is edited or instrumented",
               baseline_off_cmd="cd /repo && /venv/bin/python -m pytest -ra -q -p no:cacheprovider --timeout=900 --continue-on-collection-errors", source_commits=[], add_only=True),
    engines=[dict(name=ename(g), path="/verif/pyvc" if g == "main" else "/verif/groups/%s/pyvc" % g,
                  serves_properties=[c["property_id"] for c in checks if g in variants(c["property_id"])],
                  kind_free_text="verification-condition generator over the real Python AST (symbolic execution per path, loop invariants, modular calls against sidecar contracts, heap as per-field arrays) + SMT discharge (z3 5.1 API, cvc5 1.0.3 / z3 4.8.12 CLI fall-backs)"
                  + ("" if g == "main" else "; variant of /verif/pyvc in which this group's contracts were developed (DESIGN 10.5), sidecars in /verif/groups/%s/contracts" % g))
             for g in ["main"] + sorted(set(v for k in groups if not k.startswith("_") for v in variants(k) if v != "main"))],
    checks=checks,
    notes="exit codes of ./check: 0 held / 1 VIOLATION / 2 UNDECIDED (unknown, engine limit; never reported as a violation) / 3 engine failure. Known genuine defects are listed in known_findings.json and printed as KNOWN-FINDING lines.",
    not_applicable=na,
)
json.dump(m, open(os.path.join(V, "MANIFEST.json"), "w"), indent=1)
print(len(checks), "claimed;", len(na), "not claimed")
