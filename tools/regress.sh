#!/bin/sh
# maintenance: run every claimed quick check on the unchanged tree and print one line each (rc must be 0)
cd "$(dirname "$0")/.."
for p in $(python3 -c "import json;print(' '.join(c['property_id'] for c in json.load(open('MANIFEST.json'))['checks']))") "$@"; do
  s=$(date +%s); out=$(./check $p --no-evidence 2>&1); rc=$?; e=$(date +%s)
  echo "$p rc=$rc $((e-s))s $(echo "$out" | grep -c '^VIOLATION') violations $(echo "$out" | grep -c '^UNDECIDED') undecided :: $(echo "$out" | grep "obligations" | tail -1)"
done
