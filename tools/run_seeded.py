"""maintenance: run the claimed check of each seeded change's property against the change (applied in the scratch worktree
/tmp/seedconf/<Cxx>, never in /repo) and record the outcome in /verif/seeded/RESULTS.json"""
import json, os, subprocess, sys, time
V = os.path.dirname(os.path.dirname(os.path.abspath(__file__)))
claimed = {c["property_id"] for c in json.load(open(os.path.join(V, "MANIFEST.json")))["checks"]}
only = sys.argv[1:]
res_path = os.path.join(V, "seeded", "RESULTS.json")
shard = os.environ.get("SHARD")  # "i/N": this process takes the properties with number % N == i and writes RESULTS.<i>.json (merge: tools/run_seeded.py --merge)
if "--merge" in only:
    import glob
    results = json.load(open(res_path)) if os.path.exists(res_path) else {}
    for f in sorted(glob.glob(os.path.join(V, "seeded", "RESULTS.*.json"))):
        results.update(json.load(open(f)))
        os.remove(f)
    json.dump(dict(sorted(results.items())), open(res_path, "w"), indent=1)
    print(len(results), "results;", sum(1 for r in results.values() if r.get("exit") == 1), "detected")
    sys.exit(0)
if shard:
    res_path = os.path.join(V, "seeded", "RESULTS.%s.json" % shard.split("/")[0])
results = json.load(open(res_path)) if os.path.exists(res_path) else {}
for sid in sorted(os.listdir(os.path.join(V, "seeded"))):
    d = os.path.join(V, "seeded", sid)
    if not os.path.isdir(d): continue
    meta = json.load(open(os.path.join(d, "meta.json")))
    prop = meta["property"]
    if only and sid not in only and prop not in only: continue
    if shard and int(prop[1:]) % int(shard.split("/")[1]) != int(shard.split("/")[0]): continue
    if os.environ.get("ONLY_SUFFIX") and sid.split("_")[1] not in os.environ["ONLY_SUFFIX"].split(","): continue
    if not only and sid in results and results[sid].get("exit") is not None and not os.environ.get("REDO"): continue
    if prop not in claimed:
        results[sid] = dict(property=prop, outcome="property not claimed")
        continue
    wt = "/tmp/seedconf/%s" % prop
    if not os.path.isdir(wt):  # scratch worktree of /repo, outside /repo and /verif; removed by tools/clean_scratch.sh
        subprocess.run(["git", "-C", "/repo", "worktree", "add", "--detach", "-q", wt, "HEAD"], check=True)
    if subprocess.run("git checkout -q -- flumine && git apply %s/patch.diff" % d, cwd=wt, shell=True).returncode != 0:
        # a change written against a later /repo commit: bring the scratch worktree to /repo's HEAD first
        subprocess.run("git checkout -q --detach $(git -C /repo rev-parse HEAD) && git checkout -q -- flumine && git apply %s/patch.diff" % d, cwd=wt, shell=True, check=True)
    t = time.time()
    import signal
    proc = subprocess.Popen(["./check", prop, "--repo", wt, "--no-evidence"], cwd=V, stdout=subprocess.PIPE, stderr=subprocess.STDOUT, text=True, start_new_session=True)
    class P: pass
    p = P()
    try:
        out, _ = proc.communicate(timeout=int(os.environ.get("SEED_TIMEOUT", "2700")))
        p.returncode, p.stdout = proc.returncode, out
    except subprocess.TimeoutExpired:
        os.killpg(proc.pid, signal.SIGKILL)  # the check and its solver workers (own session)
        out, _ = proc.communicate()
        p.returncode, p.stdout = 124, out or ""
    subprocess.run("git checkout -q -- flumine", cwd=wt, shell=True)
    viol = [l for l in p.stdout.splitlines() if l.startswith("VIOLATION")]
    und = [l for l in p.stdout.splitlines() if l.startswith("UNDECIDED")]
    results[sid] = dict(property=prop, exit=p.returncode, detected=p.returncode == 1, violations=viol[:4], undecided=und[:4], confirmed_natively=any("no-failing-input-found" not in v for v in viol), wall_s=round(time.time() - t, 1))
    print(sid, p.returncode, viol[:1] or und[:1], flush=True)
    json.dump(results, open(res_path, "w"), indent=1)
json.dump(results, open(res_path, "w"), indent=1)
