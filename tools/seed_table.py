"""maintenance: markdown table of seeded/RESULTS.json (which check catches which seeded change) for DESIGN 10.9"""
import json, os, re
V = os.path.dirname(os.path.dirname(os.path.abspath(__file__)))
res = json.load(open(os.path.join(V, "seeded", "RESULTS.json")))
rows = []
for sid in sorted(res):
    r = res[sid]
    meta = json.load(open(os.path.join(V, "seeded", sid, "meta.json")))
    txt = open(os.path.join(V, "seeded", sid, "patch.diff")).read()
    files = ", ".join(sorted(set(os.path.basename(f) for f in re.findall(r"^\+\+\+ b/(\S+)", txt, re.M))))
    v = (r.get("violations") or [""])[0]
    m = re.search(r"replay=(\S+)", v)
    ob = os.path.basename(m.group(1))[:-5] if m else ""
    by = "bounded post-check " + ob[8:] if ob.startswith("bounded_") else ("bounded stand-in" if "standin" in ob else ("prover: " + ob[:90] if ob else ""))
    how = {1: "DETECTED", 0: "not detected", 2: "undecided (exit 2)", 124: "timeout"}.get(r.get("exit"), str(r.get("exit")))
    rows.append("| %s | %s | %s | %s | %s |" % (sid, files, how, by, "replayed input" if r.get("confirmed_natively") else ("no-failing-input-found" if r.get("exit") == 1 else "")))
print("| change | file(s) | `./check %s` | first obligation / check that fails | counter-example |" % "<prop>")
print("|---|---|---|---|---|")
print("\n".join(rows))
n = sum(1 for r in res.values() if r.get("exit") == 1)
print("\n%d of %d seeded changes detected (exit 1 + VIOLATION line)." % (n, len(res)))
bo = [sid for sid in sorted(res) if res[sid].get("exit") == 1 and all(("bounded" in v or "standin" in v or "_ground_" in v) for v in res[sid].get("violations", []))]
print("\nDetected only at the bounded level (every VIOLATION line of the run comes from a bounded native check): " + ", ".join(bo) + ".")
nd = [sid for sid in sorted(res) if res[sid].get("exit") != 1]
print("\nNot detected: " + ", ".join("%s (exit %s)" % (s_, res[s_].get("exit")) for s_ in nd) + ".")
