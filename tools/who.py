"""developer tool: which solver / how long per obligation name for one contract"""
import sys,time,os; sys.path.insert(0,'/verif')
from pyvc.repo import Repo; from pyvc.engine import Engine; from pyvc.contracts import Spec, verify_function; from pyvc import solve
repo=Repo(os.environ.get('REPO','/repo')); spec=Spec(); spec.load_dir('/verif/contracts',{'PRICES':[1],'BETDAQ_PRICES':[1],'PRICES_FLOAT':[1,2]})
eng=Engine(repo,spec)
c=spec.contracts[sys.argv[1]]
r=verify_function(eng,c); print(r.status,r.limit,r.paths,len(r.obligations))
res=solve.discharge(r.obligations,20000)
agg={}
for x in res:
    k=(x['obligation'].name,x['solver'],x['verdict']); a=agg.setdefault(k,[0,0.0]); a[0]+=1; a[1]+=x['time']
for k,v in sorted(agg.items(), key=lambda kv:-kv[1][1])[:25]: print(round(v[1],1),v[0],k)
