#!/bin/sh
# usage: tools_try_patch.sh Cxx patchfile [check-id...]   : apply a seeded patch in its scratch worktree and run checks against it
P=$1; PATCH=$2; shift 2
WT=/tmp/seed/$P
cd $WT && git checkout -q -- flumine && git apply $PATCH || exit 9
cd /verif
for c in "$@"; do ./check $c --repo $WT --no-evidence -v 2>&1 | tail -12; echo "rc=$?"; done
cd $WT && git checkout -q -- flumine
